"""Independent reference for the built-in eBUS field types (C05, C06, C07, C10, C12).

Written from the type table comments in DataTypeList::DataTypeList() and the eBUS type definitions -- exact
integer/rational arithmetic (fractions.Fraction, datetime), no float32 shortcuts.  The reference returns an
Expect describing what the type definition specifies for a byte pattern:
   ('val', Fraction, prec)   a number printed with prec decimals (prec None = integer text, exact)
   ('text', str)             an exact text
   ('null',)                 the null value  ('-' / JSON null, composite '-.-.-' etc. given as text)
   ('err',)                  must be rejected with an error code
   ('any',)                  the definition is silent / ambiguous here: recorded, not judged
"""
from fractions import Fraction
from decimal import Decimal, InvalidOperation
import datetime
import math
import re
import struct

# flags
REV, SIG, BCD, HCD, REQ, FIX, EXP, DAYF = 'REV', 'SIG', 'BCD', 'HCD', 'REQ', 'FIX', 'EXP', 'DAY'


class Num:
    def __init__(self, tid, bits, flags, repl, lo, hi, div):
        self.id, self.bits, self.flags, self.repl, self.lo, self.hi, self.div = tid, bits, set(flags.split()) if flags else set(), repl, lo, hi, div
        self.kind = 'num'
        self.firstbit = 0
        self.nbytes = bits // 8 if bits >= 8 else 1


def _s(v, bits):
    return v - (1 << bits) if v & (1 << (bits - 1)) else v


NUMS = {}
for t in [
    # id, bits, flags, replacement(raw), min(logical), max(logical), divisor   (from the table comments)
    Num('PIN', 16, 'FIX BCD REV', 0xffff, 0, 9999, 1),
    Num('UCH', 8, '', 0xff, 0, 254, 1),
    Num('U1L', 8, 'REQ', None, 0, 255, 1),
    Num('BDY', 8, 'DAY', 0x07, 0, 6, 1),
    Num('HDY', 8, 'DAY', 0x00, 1, 7, 1),
    Num('BCD', 8, 'BCD', 0xff, 0, 99, 1),
    Num('BCD:1', 8, 'BCD', 0xff, 0, 99, 1),
    Num('BCD:2', 16, 'BCD', 0xffff, 0, 9999, 1),
    Num('BCD:3', 24, 'BCD', 0xffffff, 0, 999999, 1),
    Num('BCD:4', 32, 'BCD', 0xffffffff, 0, 99999999, 1),
    Num('HCD', 32, 'HCD REQ', None, 0, 99999999, 1),
    Num('HCD:4', 32, 'HCD REQ', None, 0, 99999999, 1),
    Num('HCD:1', 8, 'HCD REQ', None, 0, 99, 1),
    Num('HCD:2', 16, 'HCD REQ', None, 0, 9999, 1),
    Num('HCD:3', 24, 'HCD REQ', None, 0, 999999, 1),
    Num('SCH', 8, 'SIG', 0x80, -127, 127, 1),
    Num('S1L', 8, 'SIG REQ', None, -128, 127, 1),
    Num('D1B', 8, 'SIG', 0x80, -127, 127, 1),
    Num('D1C', 8, '', 0xff, 0, 200, 2),
    Num('D2B', 16, 'SIG', 0x8000, -32767, 32767, 256),
    Num('D2C', 16, 'SIG', 0x8000, -32767, 32767, 16),
    Num('FLT', 16, 'SIG', 0x8000, -32767, 32767, 1000),
    Num('FLR', 16, 'SIG REV', 0x8000, -32767, 32767, 1000),
    Num('EXP', 32, 'SIG EXP', 0x7fc00000, None, None, 1),
    Num('EXR', 32, 'SIG EXP REV', 0x7fc00000, None, None, 1),
    Num('UIN', 16, '', 0xffff, 0, 65534, 1),
    Num('UIR', 16, 'REV', 0xffff, 0, 65534, 1),
    Num('U2L', 16, 'REQ', None, 0, 65535, 1),
    Num('U2B', 16, 'REQ REV', None, 0, 65535, 1),
    Num('SIN', 16, 'SIG', 0x8000, -32767, 32767, 1),
    Num('SIR', 16, 'SIG REV', 0x8000, -32767, 32767, 1),
    Num('S2L', 16, 'SIG REQ', None, -32768, 32767, 1),
    Num('S2B', 16, 'SIG REQ REV', None, -32768, 32767, 1),
    Num('U3N', 24, '', 0xffffff, 0, 16777214, 1),
    Num('U3R', 24, 'REV', 0xffffff, 0, 16777214, 1),
    Num('U3L', 24, 'REQ', None, 0, 16777215, 1),
    Num('U3B', 24, 'REQ REV', None, 0, 16777215, 1),
    Num('S3N', 24, 'SIG', 0x800000, -8388607, 8388607, 1),
    Num('S3R', 24, 'SIG REV', 0x800000, -8388607, 8388607, 1),
    Num('S3L', 24, 'SIG REQ', None, -8388608, 8388607, 1),
    Num('S3B', 24, 'SIG REQ REV', None, -8388608, 8388607, 1),
    Num('ULG', 32, '', 0xffffffff, 0, 4294967294, 1),
    Num('ULR', 32, 'REV', 0xffffffff, 0, 4294967294, 1),
    Num('U4L', 32, 'REQ', None, 0, 4294967295, 1),
    Num('U4B', 32, 'REQ REV', None, 0, 4294967295, 1),
    Num('SLG', 32, 'SIG', 0x80000000, -2147483647, 2147483647, 1),
    Num('SLR', 32, 'SIG REV', 0x80000000, -2147483647, 2147483647, 1),
    Num('S4L', 32, 'SIG REQ', None, -2147483648, 2147483647, 1),
    Num('S4B', 32, 'SIG REQ REV', None, -2147483648, 2147483647, 1),
]:
    NUMS[t.id] = t

# bit types: BIx:len  -> first bit x, up to (8-x) bits (BI0 max 7)
BIT_MAX = {0: 7, 1: 7, 2: 6, 3: 5, 4: 4, 5: 3, 6: 2, 7: 1}

DAYNAMES = ['Mon', 'Tue', 'Wed', 'Thu', 'Fri', 'Sat', 'Sun']


def precision_of(div):
    """number of decimals: smallest p with 10^p >= divisor (divisor > 1), else 0"""
    if div <= 1:
        return 0
    p = 0
    e = 1
    while e < div:
        e *= 10
        p += 1
    return p


def combine_divisor(base, extra):
    """divisor of a field = base type divisor combined with the definition's divisor; None if not allowed"""
    if extra in (0, 1):
        return base
    if base == 1:
        return extra
    if extra < 0:
        if base > 1:
            return None
        return extra * -base
    if base < 0:
        if extra > 1:
            return None
        return extra * -base
    return extra * base


def raw_of(t, data):
    """assemble the raw number of a numeric type from its bytes; returns ('err',)/('nullbyte',)/int"""
    bs = list(data)
    if REV in t.flags:
        bs = bs[::-1]
    # bs[0] is least significant
    if BCD in t.flags or HCD in t.flags:
        v = 0
        mul = 1
        anyrepl = False
        if BCD in t.flags and HCD not in t.flags and t.repl is not None and any(b == 0xff for b in bs):
            return ('nullbyte', all(b == 0xff for b in bs))
        for b in bs:
            if HCD in t.flags:
                if b > 0x63:
                    return ('err',)
                d = b
            else:
                if b == 0xff and t.repl is not None:
                    anyrepl = True
                    d = 0
                elif (b >> 4) > 9 or (b & 15) > 9:
                    return ('err',)
                else:
                    d = (b >> 4) * 10 + (b & 15)
            v += d * mul
            mul *= 100
        if anyrepl:
            return ('nullbyte', all(b == 0xff for b in bs))
        return v
    v = 0
    for i, b in enumerate(bs):
        v |= b << (8 * i)
    return v


def decode_num(t, data, div=None, json=False):
    """Expect for a numeric base type (no value list)"""
    if div is None:
        div = t.div
    raw = raw_of(t, data)
    if raw == ('err',):
        return ('err',)
    if isinstance(raw, tuple):  # BCD with replacement byte(s)
        return ('null',) if raw[1] else ('any',)
    if EXP in t.flags:
        f = struct.unpack('<f', struct.pack('<I', raw))[0]
        if raw == t.repl:
            return ('null',)
        if math.isnan(f) or math.isinf(f):
            return ('any',)   # other NaN/inf patterns: null or "empty" are both acceptable, never a number (checked in C06/C20)
        if abs(f) > struct.unpack('<f', struct.pack('<I', 0x7effffff))[0]:
            return ('err',)
        q = Fraction(f)
        if div < 0:
            q = q * (-div)
            if abs(q) > Fraction(struct.unpack('<f', struct.pack('<I', 0x7f7fffff))[0]):
                return ('err',)
        elif div > 1:
            q = q / div
        return ('fval', q, precision_of(div))
    if t.repl is not None and raw == t.repl:
        return ('null',)
    v = _s(raw, t.bits) if SIG in t.flags else raw
    if v < t.lo or v > t.hi:
        return ('err',)
    if div < 0:
        return ('val', Fraction(v * -div), 0)
    if div <= 1:
        if FIX in t.flags and BCD in t.flags:
            s = '%0*d' % (t.nbytes * 2, v)
            return ('text', '"%s"' % s if json else s)
        return ('val', Fraction(v), None)
    return ('val', Fraction(v, div), precision_of(div))


def decode_bits(first, nbits, data, json=False):
    v = (data[0] >> first) & ((1 << nbits) - 1)
    return ('val', Fraction(v), None)


# ---- date / time types -------------------------------------------------------------------------------------

class DT:
    def __init__(self, tid, nbytes, kind, bcd=False, rev=False, repl=0xff, res=1, bits=None, zero_is_null=True, wd=None):
        self.id, self.nbytes, self.dkind, self.bcd, self.rev, self.repl, self.res = tid, nbytes, kind, bcd, rev, repl, res
        self.bits = bits if bits else nbytes * 8
        self.kind = 'dt'
        self.wd = wd   # weekday encoding: None, 'mon1' (Mon=1..Sun=7), 'mon0' (Mon=0..Sun=6)


DTS = {}
for t in [
    DT('BDA', 4, 'date', bcd=True, wd='mon1'), DT('BDA:4', 4, 'date', bcd=True, wd='mon1'), DT('BDA:3', 3, 'date', bcd=True),
    DT('BDZ', 4, 'date', bcd=True, wd='mon0'),
    DT('HDA', 4, 'date', wd='mon1'), DT('HDA:4', 4, 'date', wd='mon1'), DT('HDA:3', 3, 'date'),
    DT('DAY', 2, 'days'), DT('DTM', 4, 'minutes2009'),
    DT('BTI', 3, 'time', bcd=True, rev=True), DT('HTI', 3, 'time'), DT('VTI', 3, 'time', rev=True, repl=0x63),
    DT('BTM', 2, 'time', bcd=True, rev=True), DT('HTM', 2, 'time'), DT('VTM', 2, 'time', rev=True),
    DT('MIN', 2, 'minutes'),
    DT('TTM', 1, 'trunc', repl=0x90, res=10, bits=8), DT('TTH', 1, 'trunc', repl=0, res=30, bits=6),
    DT('TTQ', 1, 'trunc', repl=0, res=15, bits=7),
]:
    DTS[t.id] = t


def _unbcd(b):
    if (b >> 4) > 9 or (b & 15) > 9:
        return None
    return (b >> 4) * 10 + (b & 15)


def days_in_month(y, m):
    if m == 12:
        return 31
    return (datetime.date(y, m + 1, 1) - datetime.date(y, m, 1)).days


def decode_dt(t, data, json=False):
    """Expect for date/time types.  Composite nulls follow the documented '-.-.-' / '-:-' forms."""
    def q(s):
        return ('text', '"%s"' % s if json else s)
    d = list(data)
    if t.dkind == 'date':
        if t.nbytes == 4:
            dd, mm, yy = d[0], d[1], d[3]
        else:
            dd, mm, yy = d
        nullish = [x in (0xff, 0x00) for x in (dd, mm, yy)]
        if all(x == 0xff for x in (dd, mm, yy)):
            return q('-.-.-')
        if all(nullish):
            # e.g. all zero: documented in the suite as null on read
            return q('-.-.-')
        if dd in (0xff, 0) or mm in (0xff, 0) or yy == 0xff:
            return ('any',)
        if t.bcd:
            dd, mm, yy = _unbcd(dd), _unbcd(mm), _unbcd(yy)
            if dd is None or mm is None or yy is None:
                return ('err',)
        if dd < 1 or dd > 31 or mm < 1 or mm > 12:
            return ('err',)
        if yy > 99:
            return ('err_or_any',)
        if dd > days_in_month(2000 + yy, mm):
            return ('any',)   # 30.02.: the type table only gives 01..31 / 01..12; not judged
        return q('%02d.%02d.%04d' % (dd, mm, 2000 + yy))
    if t.dkind == 'days':
        n = d[0] | (d[1] << 8)
        if n == 0xffff:
            return q('-.-.-')
        dt = datetime.date(1900, 1, 1) + datetime.timedelta(days=n)
        return q('%02d.%02d.%04d' % (dt.day, dt.month, dt.year))
    if t.dkind == 'minutes2009':
        n = d[0] | (d[1] << 8) | (d[2] << 16) | (d[3] << 24)
        if n > 0x02da4e1f:
            return ('any',)  # beyond the documented range 01.01.2009 - 31.12.2099
        dt = datetime.datetime(2009, 1, 1) + datetime.timedelta(minutes=n)
        return q('%02d.%02d.%04d %02d:%02d' % (dt.day, dt.month, dt.year, dt.hour, dt.minute))
    if t.dkind == 'time':
        parts = d[::-1] if t.rev else d   # -> hh, mm[, ss]
        if all(x == t.repl for x in parts):
            return q(':'.join('-' * len(parts)))
        if any(x == t.repl for x in parts):
            return ('any',)
        if t.bcd:
            parts = [_unbcd(x) for x in parts]
            if any(x is None for x in parts):
                return ('err',)
        hh = parts[0]
        if hh > 24 or any(x > 59 for x in parts[1:]):
            return ('err',)
        if hh == 24 and any(x > 0 for x in parts[1:]):
            return ('err',)
        return q(':'.join('%02d' % x for x in parts))
    if t.dkind == 'minutes':
        n = d[0] | (d[1] << 8)
        if n == 0xffff:
            return q('-:-')
        if d[1] == 0xff:
            return ('any',)   # only the high byte carries the replacement: mixed null, not judged
        if n > 24 * 60:
            return ('err',)
        return q('%02d:%02d' % (n // 60, n % 60))
    if t.dkind == 'trunc':
        b = d[0]
        v = b & ((1 << t.bits) - 1)
        if t.bits == 8 and b == t.repl:
            return q('-:-')
        if t.bits < 8:
            if b == t.repl:
                return q('-:-')
            if v == t.repl:
                return ('any',)  # masked value equals the replacement but foreign bits are set: ownership is judged in C10
        per = 60 // t.res
        hh, mm = v // per, (v % per) * t.res
        if hh > 24 or (hh == 24 and mm > 0):
            return ('err',)
        return q('%02d:%02d' % (hh, mm))
    return ('any',)


# ---- strings -----------------------------------------------------------------------------------------------

def decode_str(tid, data, json=False):
    d = list(data)
    if tid == 'HEX':
        s = ' '.join('%02x' % b for b in d)
        return ('text', '"%s"' % s if json else s)
    if tid == 'IGN':
        return ('any',)
    # STR / NTS: printable ASCII judged; control / 8-bit characters are not covered by the definition
    out = ''
    term = False
    for b in d:
        if b == 0:
            term = True
            continue
        if term:
            continue
        if b < 0x20 or b > 0x7e:
            return ('any',)
        c = chr(b)
        if json and c in '"\\':
            out += '\\'
        out += c
    return ('text', '"%s"' % out if json else out)


# ---- comparison of an observed decode result with an Expect -----------------------------------------------------

NUMRE = re.compile(r'^-?\d+(\.\d+)?$')
F32EPS = Fraction(1, 2 ** 22)


def check_decode(exp, code, text, json=False):
    """returns None if the observation agrees with the expectation, else a short reason"""
    k = exp[0]
    if k == 'any':
        return None
    if k == 'err_or_any':
        return None
    if k == 'err':
        return None if code < 0 else 'expected an error code, got %d %r' % (code, text)
    if code < 0:
        return 'unexpected error code %d' % code
    if code != 0:
        return 'unexpected result code %d' % code
    if k == 'null':
        want = 'null' if json else '-'
        return None if text == want else 'expected null %r, got %r' % (want, text)
    if k == 'text':
        return None if text == exp[1] else 'expected %r, got %r' % (exp[1], text)
    if k == 'val':
        qv, prec = exp[1], exp[2]
        if not NUMRE.match(text):
            return 'not a plain number: %r (expected %s)' % (text, float(qv))
        if prec is None:
            return None if text == str(int(qv)) else 'expected %d, got %r' % (int(qv), text)
        decs = len(text.split('.')[1]) if '.' in text else 0
        if decs != prec:
            # integer-valued multiples printed via %g for 32 bit types are tolerated numerically below
            if not (prec == 0 and decs == 0):
                return 'expected %d decimals, got %r' % (prec, text)
        p = Fraction(Decimal(text))
        tol = Fraction(1, 2 * 10 ** prec) + abs(qv) * F32EPS
        return None if abs(p - qv) <= tol else 'expected %s (+-%s), got %r' % (float(qv), float(tol), text)
    if k == 'fval':
        qv = exp[1]
        try:
            p = Fraction(Decimal(text))
        except (InvalidOperation, ValueError):
            return 'not a number: %r' % text
        tol = abs(qv) * Fraction(1, 10 ** 5) + Fraction(1, 10 ** 30)
        if len(exp) > 2 and exp[2]:
            tol += Fraction(1, 2 * 10 ** (exp[2] + 6))
        if json and text == 'null':
            return 'null for finite value'
        return None if abs(p - qv) <= tol else 'expected %r, got %r' % (float(qv), text)
    return None


# ---- exact parsing of user numeric texts (C07) ---------------------------------------------------------------

DECRE = re.compile(r'^[ \t]*([+-]?)(\d+)(?:\.(\d*))?(?:[eE]([+-]?\d+))?$')
DECRE2 = re.compile(r'^[ \t]*([+-]?)\.(\d+)(?:[eE]([+-]?\d+))?$')
HEXRE = re.compile(r'^[ \t]*([+-]?)0[xX]([0-9a-fA-F]+)$')


def parse_number(text):
    """exact value of a well-formed decimal/hex text -> (Fraction, form) or None if malformed.
    form: 'int', 'intfrac' (digits '.' digits), 'exp', 'hex', 'lead0' (integer with a leading zero: C-octal ambiguity)"""
    m = HEXRE.match(text)
    if m:
        v = int(m.group(2), 16)
        return (Fraction(-v if m.group(1) == '-' else v), 'hex')
    m = DECRE.match(text)
    if m:
        sign, ip, fp, ex = m.groups()
        v = Fraction(int(ip))
        form = 'int'
        if fp is not None:
            form = 'intfrac'
            if fp:
                v += Fraction(int(fp), 10 ** len(fp))
        if ex is not None:
            form = 'exp'
            e = int(ex)
            if abs(e) > 5000:
                return (Fraction(0) if e < 0 else None, 'exp') if e < 0 else ('huge', 'exp')
            v *= Fraction(10) ** e
        if form == 'int' and len(ip) > 1 and ip[0] == '0':
            form = 'lead0'
        return (-v if sign == '-' else v, form)
    m = DECRE2.match(text)
    if m:
        sign, fp, ex = m.groups()
        v = Fraction(int(fp), 10 ** len(fp))
        if ex is not None:
            e = int(ex)
            if abs(e) > 5000:
                return ('huge', 'exp') if e > 0 else (Fraction(0), 'exp')
            v *= Fraction(10) ** e
        return (-v if sign == '-' else v, 'exp' if ex is not None else 'intfrac')
    return None
