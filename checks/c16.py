#!/usr/bin/env python3
"""C16: access levels on read/write/poll/hex/HTTP/MQTT paths (harness/daemon_driver.cpp modes levels, c16)."""
import os, sys
sys.path.insert(0, os.path.join(os.path.dirname(os.path.abspath(__file__)), '..', 'bin'))
from vlib import *

TOPICS = ['ebusd/%circuit/%name', 'eb/%circuit/%name/%field', 'x/%name-y/%circuit', '']
NPAIRS = 14 * 3616          # (message level, granted list of <= 3 tokens over 14 names + '*')


def build_daemon_driver(flavour='asan'):
    return build_harness(flavour, 'daemon_driver', ['daemon_driver.cpp', 'vbus.cpp'], wraps=WRAPS_BUS, need_ebusd=True)


def main():
    c = Check('C16')
    exe = build_daemon_driver()
    cmds = [[exe, 'mode=levels', 'seed=%d' % c.seed, 'n=%d' % (2000000 if c.thorough else 200000)]]
    # random worlds; the MQTT options are process-wide, so one topic template per shard
    n = 1500 if c.thorough else 60
    for i in range(16):
        cmd = [exe, 'mode=c16', 'seed=%d' % (c.seed * 100 + i), 'n=%d' % n, 'threads=%d' % (2 if i % 2 else 3)]
        if TOPICS[i % 4]:
            cmd.append('mqtttopic=' + TOPICS[i % 4])
        cmds.append(cmd)
    # planted pairs: every (level, granted list) pair is carried by a user/message of some world; quick takes a rotating eighth
    step = 1584   # multiple of 12 (pairs per world)
    slices = list(range(0, NPAIRS, step))
    if not c.thorough:
        slices = [s for k, s in enumerate(slices) if k % 8 == c.seed % 8]
    for k, s in enumerate(slices):
        cmd = [exe, 'mode=c16', 'exh=1', 'seed=%d' % (c.seed * 100 + 50 + k), 'from=%d' % s, 'to=%d' % min(NPAIRS, s + step)]
        if k % 2:
            cmd.append('mqtttopic=' + TOPICS[k % 3])
        cmds.append(cmd)
    res = run_shards(cmds, timeout=3000 if c.thorough else 900)
    c.add_result(res)
    tot = merge_stats(res.stats)
    c.coverage.update({
        'evaluations': int(tot.get('evaluations', 0)),
        'distinct_nontrivial': int(tot.get('distinct_nontrivial', 0)),
        'rule': 'evaluations = checkLevel(level, list) calls compared with the token-set reference (all 15 levels incl. empty x all 3616 lists of '
                '<= 3 tokens over {a,b}^1..3 + "*", plus random longer names/lists with embedding tokens) + commands executed through '
                'MainLoop::decodeRequest / MqttHandler::notifyMqttTopic in generated worlds (ACL file with users/secrets/level cells or '
                'repeated cells, default entry via --accesslevel and/or "*" line, 5..14 messages with levels in the level column or legacy '
                'circuit#level, read/write/passive, same name in two circuits, read+write pair under one name with different levels) for every '
                'connection state; in every 2nd/3rd random world additionally the real MainLoop thread and MqttHandler thread run: passive updates '
                'are injected, listening clients (one per login state) and the MQTT sink must receive exactly the updates their levels allow; '
                'connection state (no auth, unknown user, wrong secret, empty secret, each user). Commands: read by name with/without circuit, '
                '-f, -m, -p PRIO, field selection, read -h, write by name, write -h, find variants, HTTP GET /data[/circuit] with and without '
                'user/secret + required/maxage/poll/write, MQTT <topic>/get|set|list with poll priority suffix. non-trivial = world in which '
                'both granting and denying decisions were observed',
        'worlds': int(tot.get('worlds', 0)), 'decisions_granted': int(tot.get('decisions_granted', 0)), 'decisions_denied': int(tot.get('decisions_denied', 0)),
        'telegrams_on_stub_bus': int(tot.get('telegrams_sent', 0)), 'logins_ok': int(tot.get('logins_ok', 0)), 'logins_failed': int(tot.get('logins_failed', 0)),
        'http_served': int(tot.get('http_served', 0)), 'http_rejected': int(tot.get('http_rejected', 0)), 'mqtt_worlds': int(tot.get('mqtt_worlds', 0)),
        'threaded_worlds': int(tot.get('threaded_worlds', 0)), 'sink_update_decisions': int(tot.get('sink_update_decisions', 0)),
        'inconclusive_waits': int(tot.get('inconclusive_waits', 0)),
        'checklevel_pairs': int(tot.get('checklevel_pairs', 0)), 'granted_list_kinds': tot.get('granted_lists', {}),
        'planted_pair_range': 'all %d (level, list) pairs' % NPAIRS if c.thorough else 'slices %s of %d pairs' % (slices, NPAIRS),
        'samples': tot.get('samples', []),
    })
    c.assumptions += [
        'observation point for "sent to the bus" is ProtocolHandler::addRequest (a synchronous stub protocol answers every telegram); the byte-level '
        'path below it is the subject of C02/C03',
        'after a failed auth command the connection keeps the user of the last successful auth (none: default levels)',
        'an authorized write may refresh the cached data of the read message of the same circuit/name (no bus access, no value returned): not judged',
        'for a name used in several circuits and addressed without circuit only the negative direction is judged (no value of an inaccessible message)',
        'KnxHandler is not constructed (needs a KNX endpoint); its level filter is the shared DataSink base also used by MqttHandler',
        'find -l LEVEL, the raw hex command and -def definitions supplied by the client are outside the statement and not judged',
    ]
    c.finish(floor_nontrivial=40)


if __name__ == '__main__':
    guarded_main(main)
