#!/usr/bin/env python3
"""C01: passive reception reports exactly the valid telegrams (see harness/bus_driver.cpp mode c01)."""
import os, sys
sys.path.insert(0, os.path.join(os.path.dirname(os.path.abspath(__file__)), '..', 'bin'))
from vlib import *


def main():
    c = Check('C01')
    exe = build_harness('asan', 'bus_driver', ['bus_driver.cpp', 'vbus.cpp'], wraps=WRAPS_BUS)
    n = 40000 if c.thorough else 300
    cmds = [[exe, 'mode=c01', 'seed=%d' % (c.seed * 100 + i), 'n=%d' % n] for i in range(32)]
    res = run_shards(cmds, timeout=3000 if c.thorough else 900)
    c.add_result(res)
    tot = merge_stats(res.stats)
    c.coverage.update({
        'evaluations': int(tot.get('evaluations', 0)),
        'distinct_nontrivial': int(tot.get('distinct_nontrivial', 0)),
        'rule': 'histories of 3..14 bus slots: idle SYNs, well-formed telegrams (all 25 sources, broadcast/master/slave destinations, NN 0..16 '
                'and occasionally up to 30, bytes biased to a9/aa/00/01/ff, optional NAK+repeat of either part) and fragments derived by one '
                'edit (bit flip, invalid escape, SYN inside, non-master/replaced QQ, invalid/self ZZ, acknowledge changed or dropped, truncation, '
                'silent gap >= 100 ms, second NAK, extra byte, CRC flip, ACK on bad CRC); each history runs for the plain and the enhanced '
                'device under 3 read chunkings/arrival burst sizes and a random configuration (own address, read-only, answer, lock count). '
                'non-trivial = history containing both a well-formed telegram and a corrupted fragment',
        'bus_bytes': int(tot.get('bus_bytes', 0)), 'handler_loop_iterations': int(tot.get('steps', 0)),
        'telegrams_expected_by_reference': int(tot.get('telegrams_expected', 0)), 'telegrams_reported': int(tot.get('telegrams_reported', 0)),
        'corruption_kinds': tot.get('corruptions', {}),
        'samples': tot.get('samples', []),
    })
    c.assumptions += ['silent gaps are either one symbol time (4.2 ms) or >= 100 ms, never near a receive timeout',
                      'reference parser (harness/bus_sim.h RefParser) written from the eBUS L2 rules: QQ plain master, ZZ valid and != QQ, '
                      'escape pairs, CRC over escaped bytes, one NAK-repeat per part']
    c.finish(floor_nontrivial=200)


if __name__ == '__main__':
    guarded_main(main)
