"""Single table from which MANIFEST.json is generated (bin/mkmanifest.py)."""

HOOKS = {
    'guard': 'EBUSD_VERIF',
    'enable': 'bin/vlib.py compiles /repo/src/**.cpp directly with -DEBUSD_VERIF plus the sanitizer flags of the flavour '
              '(asan: g++ -fsanitize=address,undefined; tsan: g++ -fsanitize=thread; fuzz: clang++ -fsanitize=fuzzer,address,undefined) '
              'into /verif/.build/<flavour>/<hash of /repo/src>/',
    'baseline_off_cmd': 'cmake -G Ninja -B /repo/_build -S /repo -DBUILD_TESTING=ON >/dev/null && cmake --build /repo/_build && ctest --test-dir /repo/_build -j8 --timeout 900',
    'source_commits': [],
    'add_only': True,
}

ENGINES = [
    {'name': 'runtime-monitor', 'path': 'bin/vlib.py',
     'serves_properties': [],
     'kind_free_text': 'real ebusd objects built from the working tree under ASan+UBSan (TSan for threaded runs), driven by '
                       'generated/exhaustive/stress workloads; independent reference monitors decide; see DESIGN.md'},
]

NOTES = ('All checks: exit 0 held / 1 VIOLATION / 2 inconclusive (harness problem, never folded into a verdict). '
         'VERIF_SEED selects the PRNG stream. Known findings: known_findings.json (never written at run time).')

NOT_CLAIMED = {}

CHECKS = {
    'C11': {
        'text': 'Exhaustive execution of the real functions: all 65536 CRC update steps (by induction over the fold: every '
                'length), all 256 addresses, all escaped strings up to a length bound, plus random long strings, compared '
                'with a bit-serial spec CRC and a set-theoretic address table; ASan+UBSan on.',
        'design_ref': 'DESIGN.md section 2, C11',
        'note': 'trusted: the reference CRC/escape/address table in harness/c11_symbol.cpp (written from the eBUS spec), the compiler and sanitizer runtime',
        'technique': 'exhaustive differential run of the real code against a spec reference, under ASan/UBSan',
    },
}
for e in ENGINES:
    e['serves_properties'] = sorted(CHECKS)
