"""Single table from which MANIFEST.json is generated (bin/mkmanifest.py)."""

HOOKS = {
    'guard': 'EBUSD_VERIF',
    'enable': 'bin/vlib.py compiles /repo/src/**.cpp directly with -DEBUSD_VERIF plus the sanitizer flags of the flavour '
              '(asan: g++ -fsanitize=address,undefined; tsan: g++ -fsanitize=thread; fuzz: clang++ -fsanitize=fuzzer,address,undefined) '
              'into /verif/.build/<flavour>/<hash of /repo/src>/',
    'baseline_off_cmd': 'cmake -G Ninja -B /repo/_build -S /repo -DBUILD_TESTING=ON >/dev/null && cmake --build /repo/_build && ctest --test-dir /repo/_build -j8 --timeout 900',
    'source_commits': [],
    'add_only': True,
}

ENGINES = [
    {'name': 'runtime-monitor', 'path': 'bin/vlib.py',
     'serves_properties': [],
     'kind_free_text': 'real ebusd objects built from the working tree under ASan+UBSan (TSan for threaded runs), driven by '
                       'generated/exhaustive/stress workloads; independent reference monitors decide; see DESIGN.md'},
]

NOTES = ('All checks: exit 0 held / 1 VIOLATION / 2 inconclusive (harness problem, never folded into a verdict). '
         'VERIF_SEED selects the PRNG stream. Known findings: known_findings.json (never written at run time).')

NOT_CLAIMED = {}

CHECKS = {
    'C11': {
        'text': 'Exhaustive execution of the real functions: all 65536 CRC update steps (by induction over the fold: every '
                'length), all 256 addresses, all escaped strings up to a length bound, plus random long strings, compared '
                'with a bit-serial spec CRC and a set-theoretic address table; ASan+UBSan on.',
        'design_ref': 'DESIGN.md section 2, C11',
        'note': 'trusted: the reference CRC/escape/address table in harness/c11_symbol.cpp (written from the eBUS spec), the compiler and sanitizer runtime',
        'technique': 'exhaustive differential run of the real code against a spec reference, under ASan/UBSan',
    },
}
CHECKS.update({
    'C01': {
        'text': 'The real FileTransport/PlainDevice|EnhancedDevice/DirectProtocolHandler stack runs on a virtual bus (link-time wrapped '
                'read/write/ppoll/time): generated histories of well-formed telegrams, idle SYNs and single-edit corruptions under several '
                'read chunkings, arrival bursts and configurations; the notifyProtocolMessage(md_recv) sequence must equal the telegram list '
                'of an independent wire-log parser (no extra, none missing, in order).',
        'design_ref': 'DESIGN.md section 2, C01',
        'note': 'trusted: RefParser in harness/bus_sim.h (eBUS L2 rules), virtual time model (symbol 4.2 ms, gaps either one symbol or >= 100 ms)',
        'technique': 'trace monitor: reference wire-log parser vs listener notifications on the real stack over a virtual bus, ASan/UBSan',
    },
    'C02': {
        'text': 'Requests are queued on the real handler over the virtual bus; the addressed participant, the echo and competing masters '
                'misbehave per generated scripts. A byte-level wire-format monitor (escaping, CRC, single repeat after NAK, ACK iff response '
                'CRC correct, final SYN) follows every own exchange, and a request must complete with RESULT_OK iff the monitor saw a complete '
                'valid exchange (then slave bytes and the md_send report must agree).',
        'design_ref': 'DESIGN.md section 2, C02',
        'note': 'trusted: TxMonitor in harness/bus_mon.h and the bus/peer model in harness/bus_sim.h; stepped execution of run()',
        'technique': 'online wire-format and result-truthfulness monitor over scripted peer/echo faults on the real stack, ASan/UBSan',
    },
    'C03': {
        'text': 'Same executions judged by an entitlement monitor over the interleaved bus log: every host byte must be an arbitration byte '
                'right after SYN for a pending request, an echo-verified continuation of a won exchange, or nothing; silence until the next '
                'SYN after loss/echo mismatch/error; no transmission when read-only.',
        'design_ref': 'DESIGN.md section 2, C03',
        'note': 'trusted: TxMonitor entitlement rules (harness/bus_mon.h); collision model = wired AND of the two address bytes',
        'technique': 'online entitlement automaton over the interleaved bus log of hostile traffic scenarios on the real stack, ASan/UBSan',
    },
    'C04': {
        'level': 'fault_enumeration',
        'text': 'Threaded execution of the real handler (bus thread on the virtual bus + client threads using addRequest(wait), sendAndWait, '
                'self-deleting and restarting requests). Deterministic mode: one injected fault at EVERY I/O call index of a scenario in turn '
                '(poll hang-up, read error/0, write error/short, echo corruption) plus device-invalid/reopen and signal-loss windows, with an '
                'exactly-once shadow table at the client boundary and a virtual-time progress bound. Stress mode: free running threads under '
                'ASan+UBSan and ThreadSanitizer (reports classified by whether they touch the request hand-over).',
        'design_ref': 'DESIGN.md section 2, C04',
        'note': 'trusted: shadow table in harness/c04_driver.cpp; schedules are sampled (real threads), the bus side is one thread; unbounded '
                'eventually replaced by a virtual-time bound; TSan only sees intercepted synchronisation',
        'technique': 'fault injection at every I/O call index + exactly-once shadow monitor + ASan/TSan stress of the real threaded stack',
    },
    'C05': {
        'text': 'The real DataField::read runs on every raw pattern of every 1-/2-byte type (exhaustive), all days of 2000-2099, all day '
                'counts, boundary and random wide patterns, for several divisors and text/JSON output; an independent exact-arithmetic '
                'reference (Python Fraction/datetime) transcribed from the type table decides each result; ASan+UBSan on.',
        'design_ref': 'DESIGN.md section 2, C05',
        'note': 'trusted: oracle/ref_codec.py (type table transcription), float32 tolerance rule; ambiguous patterns are recorded, not judged',
        'technique': 'exhaustive/random differential run of the real decoder against an exact reference codec, under ASan/UBSan',
    },
    'C06': {
        'text': 'Same executions as C05 plus write-back: each decodable pattern is re-encoded from its own text (into an empty buffer and '
                'over the original bytes) and must reproduce the owned bits; user-style texts are checked for the encode-decode-encode fixed point.',
        'design_ref': 'DESIGN.md section 2, C06',
        'note': 'trusted: bit ownership per type from the reference table; lossless domain defined by |text - exact| < half a raw step',
        'technique': 'round-trip monitor over exhaustive/random executions of the real codec, under ASan/UBSan',
    },
    'C07': {
        'text': 'Decimal/hex/exponent texts concentrated on every width and range boundary are written through the real field writers; an '
                'arbitrary-precision parser decides whether acceptance was permitted and whether the written bytes decode to within one step.',
        'design_ref': 'DESIGN.md section 2, C07',
        'note': 'trusted: oracle parse_number (exact rationals); leading-zero integers may be read as decimal or octal',
        'technique': 'boundary-value generation with an arbitrary-precision reference oracle on real executions, under ASan/UBSan',
    },
    'C08': {
        'text': 'Generated definition sets (PBSB/prefix/XOR-fold collisions, wildcards, chains) are loaded by the real CSV loader in three '
                'insertion orders; every MessageMap::find result for derived/mutated telegrams and flag combinations is compared with a '
                'linear scan over the definitions as generated (match predicate + longest ID + order independence).',
        'design_ref': 'DESIGN.md section 2, C08',
        'note': 'trusted: the linear-scan predicate ref_matches in checks/c08.py; which lines the loader accepted is taken from the loader',
        'technique': 'differential monitor: real lookup vs linear-scan reference over generated sets and insertion orders, under ASan/UBSan',
    },
    'C09': {
        'text': 'Generated active definitions (plain and chained, r/w) go through the real loader, prepareMaster (each part), find() in a fresh '
                'map, prepareSlave, storeLastData and decodeLastData; header/NN/ID, identification, decode==inputs and chain split/re-join in '
                'all tried arrival orders (active and passive path) are judged; oversize definitions must be rejected.',
        'design_ref': 'DESIGN.md section 2, C09',
        'note': 'trusted: canonical value catalog (checks/c10.py FULL) and the expected telegram layout computed in checks/c09.py',
        'technique': 'end-to-end commutation monitor (prepare/find/store/decode) on generated definitions under virtual time, ASan/UBSan',
    },
    'C13': {
        'text': 'Worlds of a referenced message, conditions of every shape and conditional messages are loaded and resolved by the real code; '
                'update histories under a virtual clock (incl. several changes per second) are interleaved with isAvailable()/find() queries '
                'and compared with a reference predicate on the last stored value; resolution is judged per condition.',
        'design_ref': 'DESIGN.md section 2, C13',
        'note': 'trusted: reference predicate cond_true/parse_ranges in checks/c13.py; time() is wrapped (virtual seconds)',
        'technique': 'history monitor under virtual time: reference predicate on last stored value vs real availability, ASan/UBSan',
    },
    'C14': {
        'text': 'Real EnhancedDevice on the real FileTransport over a simulated descriptor: every adapter stream up to a length bound over a '
                'representative alphabet under every partition into read chunks (plus random long multi-segment streams), compared with a '
                'reference decoder written from docs/enhanced_proto.md and between chunkings (symbols, won/lost, diagnostics, requests); '
                'request encodings for all 256 values; FileTransport read/readConsumed against a reference FIFO with overflow resets.',
        'design_ref': 'DESIGN.md section 2, C14',
        'note': 'trusted: reference decoder in harness/enh_driver.cpp; link-time wrapped read/write/ppoll/time (harness/vbus.cpp)',
        'technique': 'exhaustive chunking-metamorphic + reference-decoder monitor on the real device code under ASan/UBSan',
    },
    'C15': {
        'text': 'Answer mode on the virtual bus: generated sets of registered answers and received telegrams that extend, equal, truncate '
                'or mutate the registered IDs, with good/bad command CRC and every requester reaction; a monitor with a reference '
                'longest-prefix lookup decides per telegram whether the host must answer, with what bytes, how often, and when it must stay silent; '
                'md_answer reports are counted against completed answers.',
        'design_ref': 'DESIGN.md section 2, C15',
        'note': 'trusted: TxMonitor::refAnswer/followForeign (harness/bus_mon.h); registrations ambiguous by source+tail length are not generated',
        'technique': 'online answer-entitlement/content monitor with reference lookup over generated answer sets on the real stack, ASan/UBSan',
    },
    'C16': {
        'text': 'The real MainLoop (decodeRequest), UserList, MessageMap, BusHandler and MqttHandler (fake MQTT client) run on a stub protocol '
                'that records every telegram handed to the bus layer. Generated and exhaustively planted worlds (ACL files, default entries, '
                'message levels over {a,b}^1..3 so that names are prefixes/suffixes/infixes of each other) are driven with every command form '
                'in every authentication state; a token-set reference decides per command whether a value, a bus telegram, a poll-priority '
                'change, a listing entry or an MQTT publication may occur and whether access must be granted. Message::checkLevel is also '
                'swept exhaustively against the reference.',
        'design_ref': 'DESIGN.md section 2, C16',
        'note': 'trusted: refAccess() in harness/daemon_driver.cpp (split on ";", exact token or "*"), the world generator ground truth; '
                'bus observation at ProtocolHandler::addRequest; KNX sink not constructed',
        'technique': 'reference-predicate monitor over responses, stub-bus telegrams, poll priorities and sink publications of the real daemon objects, ASan/UBSan',
    },
    'C18': {
        'text': 'RequestImpl::add/split, MainLoop::executeGet (through decodeRequest) and StringReplacer/MqttHandler run on exhaustive short and '
                'random long inputs: command lines vs a reference splitter, URIs vs RFC 3986 decode-once + a file-system model with marked files '
                'outside the HTML root, topic templates vs the generating (circuit, name, field) triple and vs the message reached on the stub bus.',
        'design_ref': 'DESIGN.md section 2, C18',
        'note': 'trusted: refSplit/refDecode and the file-tree model in harness/daemon_driver.cpp; malformed escapes judged for confinement only',
        'technique': 'exhaustive/random differential monitor of the real request parsers against reference parsers and a file-system model, ASan/UBSan',
    },
    'C20': {
        'text': 'Four libFuzzer targets (clang, ASan+UBSan, reports fatal) drive the real protocol stack, the command/HTTP interpreter, the CSV '
                'loaders and the field codec with coverage-guided inputs seeded from valid shapes; monitors inside the targets check bounded work '
                '(loop-iteration and virtual-time budgets, real-time hang watchdog) and a fixed probe after every input; leaked request objects '
                'are taken from the at-exit leak report. The structured generators of the other checks run under ASan/UBSan too.',
        'design_ref': 'DESIGN.md section 2, C20',
        'note': 'trusted: sanitizer runtimes, the probes in harness/fuzz_*.cpp; reach = what coverage-guided generation got to (reported per target)',
        'technique': 'coverage-guided fuzzing (libFuzzer) of the real code under ASan/UBSan with in-target bounded-work and probe monitors',
    },
    'C17': {
        'text': 'Histories of getNextPoll interleaved with priority changes, front/back insertion, late-loaded messages, removal and reload; '
                'an online monitor checks the stride-scheduling waiting bound and proportional shares on perturbation-free windows.',
        'design_ref': 'DESIGN.md section 2, C17',
        'note': 'trusted: waiting bound and tolerance stated in the evidence assumptions; unbounded fairness replaced by window bounds',
        'technique': 'online trace monitor (bounded waiting + proportional share) over perturbed poll histories under virtual time, ASan/UBSan',
    },
    'C19': {
        'text': 'splitFields against a reference CSV writer (exhaustive short rows over an adversarial alphabet + random), dumpString round '
                'trip, and generated definition sets loaded, dumped, reloaded and dumped again with attribute-level comparison.',
        'design_ref': 'DESIGN.md section 2, C19',
        'note': 'trusted: reference writer/trim model in checks/c19.py; comparison uses the public dump/getters of both generations',
        'technique': 'round-trip (load-dump-reload-dump) differential monitor plus exhaustive splitter sweep, under ASan/UBSan',
    },
    'C10': {
        'text': 'Random field sequences built by the production factory; ownership of bits discovered black-box by encoding one field at a '
                'time, compared with an independent layout rule; agreement of getLength/usedLength/accepted data size; set decode equals '
                'single-field decodes; foreign bit flips and prefilled writes show locality.',
        'design_ref': 'DESIGN.md section 2, C10',
        'note': 'trusted: layout rule in checks/c10.py ref_layout (bit fields may share or start a fresh byte); overlapping bit definitions are not generated',
        'technique': 'black-box ownership discovery + metamorphic locality/composition monitors on real executions, under ASan/UBSan',
    },
    'C12': {
        'text': 'Random histories of codec operations incl. failing/overflowing ones; probes are executed in a pristine forked child and in the '
                'history process (same or new thread) and must agree bit for bit; shared-stream formatting must equal separate formatting.',
        'design_ref': 'DESIGN.md section 2, C12',
        'note': 'trusted: fork() snapshot taken before any codec operation represents a fresh process; load-order part is covered at message level (C19 driver)',
        'technique': 'history-vs-fresh-process differential monitor (metamorphic purity check) on real executions, under ASan/UBSan',
    },
})
for e in ENGINES:
    e['serves_properties'] = sorted(CHECKS)
