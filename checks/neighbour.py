"""Neighbour independence at the level of a two-field set (shared by C05, C06, C10): a field T decoded as the second field of a
set [P, T] -- one output stream, P in front of it having left its formatting behind -- must give exactly the text T gives when it
is decoded alone from its own bytes (which C05 compares with the reference for every pattern), and the set must encode its own
text back to the same bytes whenever both fields do so alone.  P ranges over fields that leave different stream state behind:
hex digits, fixed precision, scientific floats, value lists printing the raw number, dates/times with fill characters."""
import random
from codec_common import *
from codec_common import _run_server
from msg_common import pool_run
import codec_jobs as CJ
RC = CJ.RC

PREDS = [
    ('HEX:2', '', '0a1b'), ('HEX:1', '', '3f'), ('D2C', '', '0112'), ('UCH', '10', '7b'), ('UCH', '-10', '05'), ('EXP', '', '00000000'),
    ('EXP', '', '681103c2'), ('FLT', '', '39f8'), ('UCH', '0=off;1=on;16=auto', '2a'), ('UCH', '0=off;1=on;16=auto', '10'), ('STR:2', '', '6162'),
    ('BDA', '', '31120523'), ('BTI', '', '590823'), ('ULG', '1000', '15cd5b07'), ('D1C', '', 'c8'), ('PIN', '', '0100'), ('TTM', '', '5f'),
]


def second_fields(rng, thorough):
    """(type, dv, [patterns])"""
    out = []
    n = 24 if thorough else 7
    for tid, t in RC.NUMS.items():
        dvs = ['']
        if t.div == 1 and RC.FIX not in t.flags and RC.DAYF not in t.flags:
            dvs.append('10')
            if t.nbytes <= 2:
                dvs.append('0=off;1=on;5=five;100=big')
        if RC.EXP in t.flags:
            dvs = ['', '10', '-10']
        for dv in dvs:
            pats = [CJ.le(v, t.nbytes) for v in rng.sample(sorted(CJ.boundary_raws(t.nbytes)), min(n, len(CJ.boundary_raws(t.nbytes))))]
            pats += [CJ.le(rng.getrandbits(8 * t.nbytes), t.nbytes) for _ in range(n)]
            if RC.BCD in t.flags:
                pats += [bytes(CJ.bcdb(rng.randrange(100)) for _ in range(t.nbytes)) for _ in range(n)]
            out.append((tid, dv, pats))
    for tid, t in RC.DTS.items():
        pats = []
        for _ in range(3 * n):
            bs = [rng.choice([rng.randrange(1, 29), rng.randrange(10, 24), rng.randrange(10, 60)]) for _ in range(t.nbytes)]
            if getattr(t, 'bcd', False):
                bs = [CJ.bcdb(b) for b in bs]
            pats.append(bytes(bs))
        pats += [bytes(rng.randrange(256) for _ in range(t.nbytes)) for _ in range(n)]
        out.append((tid, '', pats))
    for typ, ln in (('STR:3', 3), ('HEX:2', 2), ('NTS:4', 4), ('BI0:3', 1), ('BI3:5', 1)):
        out.append((typ, '', [bytes(rng.choice(b'abcxyzABC0123456789 _-.') for _ in range(ln)) for _ in range(n)]))
    return out


def shard(args):
    exe, seed, thorough, roundtrip, part = args
    rng = random.Random(seed)
    stats = {'evaluations': 0, 'nontrivial': 0, 'neighbour_pairs': 0, 'set_decodes': 0, 'set_encodes': 0}
    viol = []
    fields = second_fields(rng, thorough)
    fields = [f for i, f in enumerate(fields) if i % part[1] == part[0]]
    lines = []
    plan = []
    for pi, (pt, pdv, pdata) in enumerate(PREDS):
        lines.append(dline('p%d' % pi, [{'name': 'p', 'part': 's', 'type': pt, 'dv': pdv}]))
        plan.append(None)
    for ti, (typ, dv, pats) in enumerate(fields):
        lines.append(dline('t%d' % ti, [{'name': 'x', 'part': 's', 'type': typ, 'dv': dv}]))
        plan.append(('deft', ti))
        for pi, (pt, pdv, pdata) in enumerate(PREDS):
            lines.append(dline('s%d_%d' % (ti, pi), [{'name': 'p', 'part': 's', 'type': pt, 'dv': pdv}, {'name': 'x', 'part': 's', 'type': typ, 'dv': dv}]))
            plan.append(('defs', ti, pi))
        for fmt in (0, OF_NUMERIC):
            for pat in pats:
                lines.append('RT\tt%d\t%d\ts\t%s' % (ti, fmt, pat.hex()))
                plan.append(('alone', ti, fmt, pat))
                for pi, (pt, pdv, pdata) in enumerate(PREDS):
                    if rng.random() < (1.0 if thorough else 0.45):
                        lines.append('RT\tp%d\t%d\ts\t%s' % (pi, fmt, pdata))
                        plan.append(('palone', pi))
                        lines.append('RT\ts%d_%d\t%d\ts\t%s' % (ti, pi, fmt, pdata + pat.hex()))
                        plan.append(('set', ti, pi, fmt, pat))
    rc, out, err = _run_server(exe, lines)
    outl = [l.split('\t') for l in out.split('\n') if l]
    if rc != 0 or len(outl) != len(lines):
        return stats, viol, (rc if rc else 1, err[-6000:] or 'neighbour shard: %d/%d answers' % (len(outl), len(lines)))
    alone = None
    palone = None
    okdef = {}
    for pl, o in zip(plan, outl):
        if pl is None:
            continue
        if pl[0] == 'deft':
            okdef[('t', pl[1])] = o[2] == '0'
            continue
        if pl[0] == 'defs':
            okdef[('s', pl[1], pl[2])] = o[2] == '0'
            continue
        if pl[0] == 'alone':
            alone = o
            continue
        if pl[0] == 'palone':
            palone = o
            continue
        _, ti, pi, fmt, pat = pl
        typ, dv, _p = fields[ti]
        pt, pdv, pdata = PREDS[pi]
        if not okdef.get(('t', ti)) or not okdef.get(('s', ti, pi)):
            continue
        stats['evaluations'] += 1
        stats['set_decodes'] += 1
        # o/alone/palone: t data code text [wcode whex used w2code w2hex]
        if int(palone[2]) < 0:
            continue
        desc = 'set [p:%s%s=%s, x:%s%s=%s] fmt=%d' % (pt, ',' + pdv if pdv else '', pdata, typ, ',' + dv if dv else '', pat.hex(), fmt)
        if int(alone[2]) < 0:       # (positive codes are not errors: an empty value gives an empty text)
            if int(o[2]) >= 0:
                viol.append(('neighbour-decode:%s' % typ, '%s: the second field alone is rejected (%s) but the set decodes to %r' % (desc, alone[2], unesc(o[3]))))
            continue
        stats['nontrivial'] += 1
        exp = unesc(palone[3]) + ';' + unesc(alone[3])
        if int(o[2]) < 0 or unesc(o[3]) != exp:
            viol.append(('neighbour-decode:%s' % typ, '%s: decodes to %r (code %s), the fields alone give %r' % (desc, unesc(o[3]), o[2], exp)))
            continue
        if roundtrip and len(alone) > 5 and len(palone) > 5 and alone[4] == '0' and palone[4] == '0' and alone[5] == pat.hex() and palone[5] == pdata:
            stats['set_encodes'] += 1
            if len(o) < 6 or o[4] != '0' or o[5] != pdata + pat.hex():
                viol.append(('neighbour-roundtrip:%s' % typ, '%s: text %r encodes to %s (code %s), expected %s as the fields alone do' % (
                    desc, exp, o[5] if len(o) > 5 else '', o[4] if len(o) > 4 else '?', pdata + pat.hex())))
    stats['neighbour_pairs'] = len(fields) * len(PREDS)
    return stats, viol[:60], None


def run_neighbours(c, exe, roundtrip):
    """runs the shards on the check's pool, adds violations, returns merged stats"""
    nsh = 16
    tot = pool_run(c, shard, [(exe, c.seed * 7919 + i, c.thorough, roundtrip, (i, nsh)) for i in range(nsh)])
    return tot
