#!/usr/bin/env python3
"""C15: answer mode answers exactly what it was configured for (harness/bus_driver.cpp mode c15)."""
import os, sys
sys.path.insert(0, os.path.join(os.path.dirname(os.path.abspath(__file__)), '..', 'bin'))
from vlib import *


def main():
    c = Check('C15')
    exe = build_harness('asan', 'bus_driver', ['bus_driver.cpp', 'vbus.cpp'], wraps=WRAPS_BUS)
    n = 150000 if c.thorough else 1200
    cmds = [[exe, 'mode=c15', 'filter=c', 'seed=%d' % (c.seed * 100 + i), 'n=%d' % n] for i in range(32)]
    res = run_shards(cmds, timeout=3000 if c.thorough else 900)
    c.add_result(res)
    tot = merge_stats(res.stats)
    c.coverage.update({
        'evaluations': int(tot.get('evaluations', 0)),
        'distinct_nontrivial': int(tot.get('distinct_nontrivial', 0)),
        'rule': 'scenarios with answer mode on: 1..8 answers registered through setAnswer (ID length 0..4 with shared prefixes, with/without '
                'source restriction, destination own slave / own master / another address, slave answers of 0..16 bytes with escapes, '
                'master answers with tail length 0..6) and 2..10 received telegrams per scenario (data extending, equal to, truncating or '
                'mutating a registered ID, NN up to 16, other source/destination/SB, good or bad command CRC with repetition, requester '
                'reacting to the response with ACK, NAK, garbage or silence); plain and enhanced device. The monitor decides per telegram '
                'whether and what the host may transmit (reference longest-prefix lookup). non-trivial = scenario in which the host answered',
        'answers_by_host': int(tot.get('answers_by_host', 0)), 'bus_bytes': int(tot.get('bus_bytes', 0)),
        'handler_loop_iterations': int(tot.get('steps', 0)),
        'samples': tot.get('samples', []),
    })
    c.assumptions += ['with a wrong command CRC the host may send NAK or stay silent, it must never send ACK or a response',
                      'for master destinations the registered answer only carries the expected length of the data following the ID',
                      'all transmissions in these scenarios also pass the C03 entitlement rules (alarms of both kinds are reported here)']
    c.finish(floor_nontrivial=300)


if __name__ == '__main__':
    guarded_main(main)
