#!/usr/bin/env python3
"""C02: active requests are sent in correct wire format and reported truthfully."""
import os, sys
sys.path.insert(0, os.path.dirname(os.path.abspath(__file__)))
from bus_active import *

guarded_main(lambda: run_active(
    'C02', 'c02',
    'scenarios on the virtual bus: 1..3 requests (ZZ broadcast/master/slave, NN 0..16, bytes biased to a9/aa) submitted at random virtual '
    'times; the addressed participant follows a per-attempt script (ACK, NAK, other symbol, silence, SYN; response with good/bad CRC, cut '
    'short, wrong NN, escapes, different data on the repeat); optionally the echo of the k-th transmitted byte is corrupted; plain and '
    'enhanced device; bus-lost retries 0/1/3; a second scenario family adds competing masters and foreign traffic. A wire-format monitor '
    'follows every exchange byte by byte; a request must succeed iff a complete valid exchange of it is on the wire. '
    'non-trivial = scenario with at least one adverse event (NAK, bad CRC, echo fault, lost arbitration, silence) and host transmissions',
    ['peer reactions are scripted per exchange; timing inside receive timeouts is nominal (4.2 ms per symbol)',
     'only the sign of a failed result is judged, not the specific error code',
     'after a second response with wrong CRC the host may end the exchange directly with SYN'], 300))
