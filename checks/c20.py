#!/usr/bin/env python3
"""C20: no input corrupts memory, hangs or crashes: four coverage-guided libFuzzer targets (clang, ASan+UBSan fatal) with
monitors inside the targets (bounded work, probe after every input), harness/fuzz_{bus,cmd,csv,codec}.cpp."""
import base64, concurrent.futures, glob, os, re, shutil, subprocess, sys, time
sys.path.insert(0, os.path.join(os.path.dirname(os.path.abspath(__file__)), '..', 'bin'))
from vlib import *

VERIF = os.path.join(os.path.dirname(os.path.abspath(__file__)), '..')
FUZZ = os.path.join(VERIF, 'fuzz')
TARGETS = {
    # name: (needs libebusd, max_len, runs per process quick, runs per process thorough)
    'fuzz_bus': (False, 384, 12000, 600000),
    'fuzz_cmd': (True, 512, 8000, 400000),
    'fuzz_csv': (False, 1024, 15000, 900000),
    'fuzz_codec': (False, 256, 60000, 4000000),
}
REQ_FRAME = re.compile(r'ebusd::\w*Request\w*::|ebusd::RequestImpl')


def build(name):
    return build_harness('fuzz', name, [name + '.cpp', 'vbus.cpp'], wraps=WRAPS_BUS, need_ebusd=TARGETS[name][0])


def leak_blocks(err):
    """at-exit LeakSanitizer report -> list of (is_request_object, top in-tree function)"""
    out = []
    for blk in re.split(r'\n(?=(?:Direct|Indirect) leak of )', err):
        if not re.match(r'(Direct|Indirect) leak of ', blk):
            continue
        top = '?'
        for fm in re.finditer(r'#\d+ 0x[0-9a-f]+ in (.+?) (/\S+?):\d+', blk):
            if fm.group(2).startswith(REPO + '/src'):
                top = re.sub(r'\(.*', '', fm.group(1))
                break
        out.append((bool(REQ_FRAME.search(blk)), top))
    return out


def run_target(name, exe, idx, seed, runs, scratch, thorough):
    """one libFuzzer process, restarted after a crash (up to 3 findings); returns dict"""
    corpus_out = os.path.join(scratch, 'corpus', '%s-%d' % (name, idx))
    os.makedirs(corpus_out, exist_ok=True)
    dirs = [corpus_out]
    for d in (os.path.join(FUZZ, 'corpus', name), os.path.join(FUZZ, 'seeds', name)):
        if os.path.isdir(d) and os.listdir(d):
            dirs.append(d)
    env = dict(os.environ)
    env.update(SAN_ENV)
    env['ASAN_OPTIONS'] = env['ASAN_OPTIONS'] + ':quarantine_size_mb=16'
    env['VERIF_TMP'] = scratch
    r = {'name': name, 'execs': 0, 'cov': 0, 'ft': 0, 'corp': 0, 'findings': [], 'other_leaks': {}, 'inconclusive': []}
    remaining = runs
    for attempt in range(4):
        if remaining <= 0:
            break
        prefix = os.path.join(scratch, 'art-%s-%d-%d-' % (name, idx, attempt))
        cmd = [exe, '-runs=%d' % remaining, '-seed=%d' % (seed * 1000 + idx * 10 + attempt + 1), '-max_len=%d' % TARGETS[name][1], '-timeout=1200',
               '-rss_limit_mb=4096', '-detect_leaks=0', '-use_value_profile=1', '-print_final_stats=1', '-artifact_prefix=' + prefix, '-dict=' + os.path.join(FUZZ, 'dict', name + '.dict')] + dirs
        try:
            p = subprocess.run(cmd, stdout=subprocess.PIPE, stderr=subprocess.PIPE, env=env, timeout=14400 if thorough else 1500)
        except subprocess.TimeoutExpired:
            r['inconclusive'].append('%s: no result within the wall-clock watchdog' % name)
            break
        err = p.stderr.decode('utf-8', 'replace')
        m = re.search(r'stat::number_of_executed_units:\s*(\d+)', err)
        done = int(m.group(1)) if m else 0
        for m in re.finditer(r'#(\d+)\s+\S+\s+cov: (\d+) ft: (\d+) corp: (\d+)', err):
            done = max(done, int(m.group(1))) if not m else done
            r['cov'] = max(r['cov'], int(m.group(2))); r['ft'] = max(r['ft'], int(m.group(3))); r['corp'] = max(r['corp'], int(m.group(4)))
        if done == 0:
            lm = re.findall(r'#(\d+)\s', err)
            done = int(lm[-1]) if lm else 0
        r['execs'] += done
        remaining -= max(done, 1)
        for isreq, top in leak_blocks(err):
            if isreq:
                r['findings'].append(('lsan:request-object:' + top, 'request object leaked (at-exit report of %s)' % name, ' '.join(cmd)))
            else:
                r['other_leaks'][top] = r['other_leaks'].get(top, 0) + 1
        unit = re.search(r'Test unit written to (\S+)', err)
        if p.returncode == 0:
            break
        keys = []
        vm = re.search(r'VERIF-VIOLATION\t([^\t\n]+)\t([^\n]*)', err)
        if vm:
            keys.append((vm.group(1), vm.group(2)))
        else:
            keys += [(k, s) for k, s in classify_sanitizer(err) if not k.startswith('lsan:')]
            if not keys and 'libFuzzer: out-of-memory' in err:
                keys.append(('c20-out-of-memory', 'libFuzzer rss limit'))
            if not keys and 'libFuzzer: timeout' in err:
                keys.append(('c20-hang', 'libFuzzer timeout'))
            if not keys and 'deadly signal' in err:
                keys.append(('crash:signal', err[-400:].replace('\n', ' | ')))
        if not keys and 'LeakSanitizer: detected memory leaks' in err:
            break      # the run completed; the at-exit leak report was classified above
        if not keys:
            r['inconclusive'].append('%s: exit %s, unclassified: %s' % (name, p.returncode, err[-300:].replace('\n', ' | ')))
            break
        data = b''
        if unit and os.path.exists(unit.group(1)):
            data = open(unit.group(1), 'rb').read()
        for k, s in keys[:1]:
            replay = ('target=%s\nrebuild: python3 -c "import sys; sys.path.insert(0, \'/verif/checks\'); import c20; print(c20.build(\'%s\'))"\n'
                      'run: <binary> <unit file>   (VERIF_FUZZ_VERBOSE=1 for traces)\nunit (base64): %s\nunit (escaped): %r\n' % (name, name, base64.b64encode(data).decode(), data[:400]))
            r['findings'].append(('%s:%s' % (name, k), s, replay))
    return r


def main():
    c = Check('C20')
    exes = {}
    for name in TARGETS:
        exes[name] = build(name)
    scratch = os.path.join(BUILD, 'fuzz-scratch-%d' % os.getpid())
    shutil.rmtree(scratch, ignore_errors=True)
    os.makedirs(scratch)
    jobs = []
    per = 4
    for name, (_, _, rq, rt) in TARGETS.items():
        for i in range(per):
            jobs.append((name, exes[name], i, c.seed, rt if c.thorough else rq, scratch, c.thorough))
    results = []
    with concurrent.futures.ThreadPoolExecutor(NCPU) as ex:
        for r in ex.map(lambda j: run_target(*j), jobs):
            results.append(r)
    per_target = {}
    for r in results:
        t = per_target.setdefault(r['name'], {'executions': 0, 'coverage_edges': 0, 'features': 0, 'corpus_units': 0, 'other_leaks': {}})
        t['executions'] += r['execs']; t['coverage_edges'] = max(t['coverage_edges'], r['cov']); t['features'] = max(t['features'], r['ft'])
        t['corpus_units'] = max(t['corpus_units'], r['corp'])
        for k, v in r['other_leaks'].items():
            t['other_leaks'][k] = t['other_leaks'].get(k, 0) + v
        for k, s, replay in r['findings']:
            c.violation(k, s, replay)
        for s in r['inconclusive']:
            c.inconclusive.append(s)
    shutil.rmtree(scratch, ignore_errors=True)
    total = sum(t['executions'] for t in per_target.values())
    c.coverage.update({
        'evaluations': total,
        'distinct_nontrivial': sum(t['corpus_units'] for t in per_target.values()),
        'rule': 'evaluations = libFuzzer executions over the four targets (each execution = one generated input through the real code under ASan+UBSan '
                'with fatal reports, a bounded-work monitor and a fixed probe afterwards); distinct_nontrivial = size of the coverage-distinct corpus '
                'libFuzzer kept (inputs that reached new code/feature combinations). fuzz_bus: transport bytes -> FileTransport/Plain|EnhancedDevice/'
                'DirectProtocolHandler with pending requests, registered answers, device faults and a scripted echo/adapter; fuzz_cmd: TCP command '
                'lines and HTTP requests -> RequestImpl + MainLoop::decodeRequest on a fresh daemon world (hex/define enabled, stub bus answers derived '
                'from the input); fuzz_csv: template + definition CSV -> loaders, then dump/encode/decode of every loaded message; fuzz_codec: field '
                'definitions + raw bytes + value text -> DataField::create/read/write/derive',
        'per_target': per_target,
        'seed_inputs': {n: len(os.listdir(os.path.join(FUZZ, 'seeds', n))) for n in TARGETS},
        'committed_corpus_units': {n: len(os.listdir(os.path.join(FUZZ, 'corpus', n))) if os.path.isdir(os.path.join(FUZZ, 'corpus', n)) else 0 for n in TARGETS},
        'samples': ['%s: %d executions, %d edges, corpus %d' % (n, t['executions'], t['coverage_edges'], t['corpus_units']) for n, t in per_target.items()],
    })
    c.assumptions += [
        'every input runs on a fresh instance (reproducible units); "afterwards still decodes correctly" is decided by the probe at the end of the same execution',
        'bounded work: handler loop iterations <= 64*(len+16)+2000 per input and <= 3000 for the probe (fuzz_bus); a unit running > 25 s real time is a hang '
        '(watchdog thread on the monotonic clock, because the wall clock is virtual while a unit runs)',
        'leaks: only leaked request objects (allocation stack through a *Request* class) are part of the statement; other at-exit leak reports are listed under '
        'per_target.other_leaks and not judged',
        'the structured generators of C01..C19 run the same code under ASan/UBSan as well; their sanitizer reports are raised by those checks',
        'a clean sanitizer run is not memory safety: red zones miss intra-object and far out-of-bounds accesses; coverage is what the fuzzers reached',
    ]
    c.finish(floor_nontrivial=200)


if __name__ == '__main__':
    guarded_main(main)
