"""Shared driver for the codec checks (C05, C06, C07, C10, C12): builds command batches for harness/codec_server,
runs them sharded over processes and hands every result line to a judge callback."""
import multiprocessing
import os
import random
import subprocess
import sys
import tempfile

sys.path.insert(0, os.path.join(os.path.dirname(os.path.abspath(__file__)), '..', 'bin'))
sys.path.insert(0, os.path.join(os.path.dirname(os.path.abspath(__file__)), '..', 'oracle'))
from vlib import *
import ref_codec as RC

OF_NAMES, OF_UNITS, OF_COMMENTS, OF_NUMERIC, OF_VALUENAME, OF_JSON, OF_SHORT = 1, 2, 4, 8, 16, 32, 64
TMP = os.path.join(BUILD, 'tmp')


def esc(s):
    o = []
    for ch in s:
        c = ord(ch)
        if ch == '\\':
            o.append('\\\\')
        elif ch == '\t':
            o.append('\\t')
        elif ch == '\n':
            o.append('\\n')
        elif ch == '\r':
            o.append('\\r')
        elif c < 0x20 or c >= 0x7f:
            o.append('\\x%02x' % (c & 0xff))
        else:
            o.append(ch)
    return ''.join(o)


def unesc(s):
    if '\\' not in s:
        return s
    o = []
    i = 0
    while i < len(s):
        ch = s[i]
        if ch != '\\' or i + 1 >= len(s):
            o.append(ch)
            i += 1
            continue
        n = s[i + 1]
        i += 2
        if n == 't':
            o.append('\t')
        elif n == 'n':
            o.append('\n')
        elif n == 'r':
            o.append('\r')
        elif n == '\\':
            o.append('\\')
        elif n == 'x':
            o.append(chr(int(s[i:i + 2], 16)))
            i += 2
        else:
            o.append(n)
    return ''.join(o)


def dline(fid, rows, is_write=False, bc_master=False):
    """rows: list of dicts with name, part, type, dv (divisor/values), range, unit, comment"""
    f = ['D', fid, '1' if is_write else '0', '1' if bc_master else '0']
    for r in rows:
        f += [esc(r.get('name', 'x')), r.get('part', ''), esc(r['type']), esc(r.get('dv', '')), esc(r.get('range', '')),
              esc(r.get('unit', '')), esc(r.get('comment', ''))]
    return '\t'.join(f)


class Job:
    """one field definition plus the patterns to run through it"""
    def __init__(self, typ, dv='', rng='', fmt=0, part='s', sweep=None, patterns=None, meta=None, is_write=False, texts=None):
        self.typ, self.dv, self.rng, self.fmt, self.part = typ, dv, rng, fmt, part
        self.sweep = sweep          # (nbytes, start, count)
        self.patterns = patterns    # list of bytes
        self.texts = texts          # list of str: encode -> decode -> encode (WRW)
        self.meta = meta or {}
        self.is_write = is_write

    def key(self):
        return '%s|%s|%s|%d|%s' % (self.typ, self.dv, self.rng, self.fmt, self.part)

    def n(self):
        return self.sweep[2] if self.sweep else len(self.texts) if self.texts is not None else len(self.patterns)

    def split(self, maxn):
        if self.n() <= maxn:
            return [self]
        out = []
        if self.sweep:
            nb, st, cnt = self.sweep
            for s in range(st, st + cnt, maxn):
                out.append(Job(self.typ, self.dv, self.rng, self.fmt, self.part, sweep=(nb, s, min(maxn, st + cnt - s)),
                               meta=self.meta, is_write=self.is_write))
        elif self.texts is not None:
            for s in range(0, len(self.texts), maxn):
                out.append(Job(self.typ, self.dv, self.rng, self.fmt, self.part, texts=self.texts[s:s + maxn],
                               meta=self.meta, is_write=self.is_write))
        else:
            for s in range(0, len(self.patterns), maxn):
                out.append(Job(self.typ, self.dv, self.rng, self.fmt, self.part, patterns=self.patterns[s:s + maxn],
                               meta=self.meta, is_write=self.is_write))
        return out


def _run_server(exe, lines, extra_args=()):
    os.makedirs(TMP, exist_ok=True)
    fd, path = tempfile.mkstemp(prefix='cmd', dir=TMP)
    with os.fdopen(fd, 'w') as f:
        f.write('\n'.join(lines))
        f.write('\nQ\n')
    e = dict(os.environ)
    e.update(SAN_ENV)
    try:
        p = subprocess.run([exe, path] + list(extra_args), stdout=subprocess.PIPE, stderr=subprocess.PIPE, env=e, timeout=3000)
    finally:
        os.unlink(path)
    return p.returncode, p.stdout.decode('latin-1'), p.stderr.decode('utf-8', 'replace')


def run_rt_shard(args):
    """worker: runs a list of Jobs (read + write-back) and judges each line with judge(job, fields)->list of (key, detail).
    returns (stats dict, violations list, sanitizer/crash info)"""
    exe, jobs, judge_name, module = args
    mod = __import__(module)
    judge = getattr(mod, judge_name)
    lines = []
    for i, j in enumerate(jobs):
        lines.append(dline('f%d' % i, [{'name': 'x', 'part': j.part, 'type': j.typ, 'dv': j.dv, 'range': j.rng}], j.is_write))
        if j.sweep:
            lines.append('SW\tf%d\t%d\t%s\t%d\t%d\t%d' % (i, j.fmt, j.part, j.sweep[0], j.sweep[1], j.sweep[2]))
        elif j.texts is not None:
            for t in j.texts:
                lines.append('WRW\tf%d\t%d\t%s\t%s' % (i, j.fmt, j.part, esc(t)))
        else:
            for pat in j.patterns:
                lines.append('RT\tf%d\t%d\t%s\t%s' % (i, j.fmt, j.part, pat.hex()))
    rc, out, err = _run_server(exe, lines)
    stats = {'evaluations': 0, 'nontrivial': 0, 'judged': 0, 'unjudged': 0, 'errors_expected': 0, 'nulls': 0}
    viol = []
    samples = []
    it = iter(out.split('\n'))
    ji = -1
    job = None
    defined = False
    for line in it:
        if not line:
            continue
        f = line.split('\t')
        if f[0] == 'd':
            ji += 1
            job = jobs[ji]
            defined = f[2] == '0'
            job.dres = f
            ti = 0
            r = judge(job, None, f, stats)
            if r:
                viol.extend(r)
            continue
        if f[0] == 'e' and job is not None:
            stats['evaluations'] += 1
            r = judge(job, job.texts[ti], f, stats)
            ti += 1
            if r:
                viol.extend(r)
            continue
        if f[0] in ('s', 't') and job is not None:
            stats['evaluations'] += 1
            r = judge(job, bytes.fromhex(f[1]), f, stats)
            if r:
                viol.extend(r)
            elif len(samples) < 3 and f[2] == '0' and stats['evaluations'] % 977 == 1:
                samples.append('%s%s %s -> %s' % (job.typ, (',' + job.dv) if job.dv else '', f[1], unesc(f[3])))
    san = None
    if rc != 0:
        san = (rc, err[-8000:])
    stats['samples'] = samples
    return stats, viol[:200], san


def run_jobs(check, exe, jobs, judge_name, module, chunk=40000):
    """split jobs into balanced shards and run them on a process pool; fills check.violations/inconclusive; returns stats"""
    pieces = []
    for j in jobs:
        pieces.extend(j.split(chunk))
    pieces.sort(key=lambda j: -j.n())
    nsh = NCPU * 2
    shards = [[] for _ in range(nsh)]
    load = [0] * nsh
    for p in pieces:
        i = load.index(min(load))
        shards[i].append(p)
        load[i] += p.n() + 50
    shards = [s for s in shards if s]
    tot = {}
    with multiprocessing.Pool(min(NCPU, len(shards))) as pool:
        for stats, viol, san in pool.imap_unordered(run_rt_shard, [(exe, s, judge_name, module) for s in shards]):
            for k, v in stats.items():
                if isinstance(v, list):
                    tot.setdefault(k, [])
                    if len(tot[k]) < 8:
                        tot[k].extend(v[:2])
                else:
                    tot[k] = tot.get(k, 0) + v
            for key, detail in viol:
                check.violation(key, detail)
            if san:
                rc, err = san
                reps = classify_sanitizer(err)
                cur = ''
                for line in err.splitlines():
                    if line.startswith('CASE\t'):
                        cur = line[5:]
                if reps:
                    for key, summ in reps[:3]:
                        check.violation(key, summ + ' case=' + cur, err)
                else:
                    check.violation('crash:codec_server:%s' % rc, 'abnormal exit %s case=%s' % (rc, cur), err)
    return tot
