#!/usr/bin/env python3
"""C17: polling is starvation-free and proportional to 1/priority. Histories of MessageMap::getNextPoll interleaved
with setPollPriority, addPollMessage(front/back), newly loaded poll messages, removal and reload into a new map are
run on the real code under virtual time; an online monitor checks bounded waiting and proportional shares."""
import os, sys, random
sys.path.insert(0, os.path.dirname(os.path.abspath(__file__)))
from msg_common import *
from fractions import Fraction

SLAVES = [0x08, 0x15, 0x25, 0x52, 0x75, 0x26, 0x35, 0x50]


def msg_line(i, prio):
    return 'r%s,pc,p%d,,,%02x,b509,%02x%02x,v,,UCH,,,' % (prio if prio else '', i, SLAVES[i % len(SLAVES)], i, 0x10 + i)


def shard(args):
    exe, seed, nhist, thorough = args
    rng = random.Random(seed)
    stats = {'evaluations': 0, 'nontrivial': 0, 'selections': 0, 'perturbations': 0, 'windows_judged': 0, 'samples': [],
             'perturbation_kinds': {}}
    viol = []
    for h in range(nhist):
        n0 = rng.randrange(2, 13)
        prios = {i: rng.randrange(1, 10) for i in range(n0)}
        if rng.random() < 0.3:
            p = rng.randrange(1, 10)
            prios = {i: p for i in prios}
        lines = ['TIME\t%d' % (1700000000 + h * 100000), 'NEW\tm\t0']
        for i, p in prios.items():
            lines.append('LOAD\tm\t' + esc('\n' + msg_line(i, p) + '\n'))
        # messages without poll priority: a client may give them one later (read -p PRIO)
        idle = list(range(100, 100 + rng.randrange(0, 3)))
        for i in idle:
            lines.append('LOAD\tm\t' + esc('\n' + msg_line(i, 0) + '\n'))
        events = [('init', dict(prios))]
        plan = [None] * len(lines)
        total = rng.randrange(2000, 20000 if thorough else 6000)
        done = 0
        now = 1700000000 + h * 100000
        nextid = n0
        present = dict(prios)
        cond_refs = set()
        while done < total:
            k = rng.choice([1, 3, 10, 50, 200, 500])
            # selections happen one per poll interval: advance the clock between them in small groups
            for _ in range(0, k, 5):
                now += rng.choice([0, 1, 1, 5])
                lines.append('TIME\t%d' % now)
                plan.append(None)
                lines.append('POLL\tm\t%d' % min(5, k))
                plan.append(('poll',))
            done += k
            if rng.random() < 0.35 and done < total:
                r = rng.random()
                if r < 0.05 and idle and len(present) < 12:
                    # a condition on a message without priority is loaded and resolved: the message is needed for the condition,
                    # gets the condition poll priority (5) and is put to the front
                    i = idle.pop()
                    lines.append('LOAD\tm\t' + esc('\n*[k%d],pc,p%d,,,,\n[k%d]r,pc,q%d,,,08,b509,ff%02x,v,,UCH,,,\n' % (i, i, i, i, i & 0xff)))
                    plan.append(None)
                    lines.append('RESOLVE\tm')
                    plan.append(('condprio', i, 5))
                    present[i] = 5
                    cond_refs.add(i)
                elif r < 0.13 and len(set(present) - cond_refs) >= 1 and len(present) >= 2:
                    # the priority of one message is changed back and forth every few selections for a while (clients asking with
                    # different priorities): it must keep its turn, a change must not make it start waiting anew each time
                    i = rng.choice(sorted(set(present) - cond_refs))
                    pa = present[i]
                    pb = rng.choice([x for x in range(1, 10) if x != pa])
                    for _rep in range(rng.randrange(15, 40)):
                        for pp in (pb, pa):
                            lines.append('SETPRIO\tm\tpc\tp%d\t%d' % (i, pp))
                            plan.append(('flap', i, pp, max(pa, pb)))
                            kk = rng.randrange(1, 5)
                            now += rng.choice([0, 1])
                            lines.append('TIME\t%d' % now)
                            plan.append(None)
                            lines.append('POLL\tm\t%d' % kk)
                            plan.append(('poll',))
                            done += kk
                    present[i] = pa
                elif r < 0.16 and idle and len(present) < 12:
                    i = idle.pop()
                    p = rng.randrange(1, 10)
                    lines.append('SETPRIO\tm\tpc\tp%d\t%d' % (i, p))
                    plan.append(('firstprio', i, p))
                    present[i] = p
                elif r < 0.35 and present:
                    i = rng.choice(sorted(present))
                    p = rng.randrange(1, 10)
                    lines.append('SETPRIO\tm\tpc\tp%d\t%d' % (i, p))
                    plan.append(('setprio', i, p))
                    present[i] = p
                elif r < 0.55 and present:
                    i = rng.choice(sorted(present))
                    front = rng.random() < 0.5
                    lines.append('ADDPOLL\tm\tpc\tp%d\t%d' % (i, front))
                    plan.append(('addpoll', i, front))
                elif r < 0.75 and len(present) < 12:
                    p = rng.randrange(1, 10)
                    lines.append('LOAD\tm\t' + esc('\n' + msg_line(nextid, p) + '\n'))
                    plan.append(('new', nextid, p))
                    present[nextid] = p
                    nextid += 1
                elif r < 0.88 and len(set(present) - cond_refs) > 2:
                    i = rng.choice(sorted(set(present) - cond_refs))     # (not a message a loaded condition refers to: resolving would fail)
                    lines.append('REMOVE\tm\tpc\tp%d\t0\t0' % i)
                    plan.append(('remove', i))
                    del present[i]
                elif present:
                    # reload all present definitions into a new map (g_lastPollOrder is process global)
                    lines.append('NEW\tm\t0')
                    plan.append(('reload', dict(present)))
                    for i, p in present.items():
                        lines.append('LOAD\tm\t' + esc('\n' + msg_line(i, p) + '\n'))
                        plan.append(None)
                    for i in idle:
                        lines.append('LOAD\tm\t' + esc('\n' + msg_line(i, 0) + '\n'))
                        plan.append(None)
        rc, outl, err = run_server(exe, lines)
        if rc != 0 or len(outl) != len(lines):
            return stats, viol + ([('harness', 'poll shard rc=%s lines=%d/%d' % (rc, len(outl), len(lines)))] if rc == 0 else []), (rc, err) if rc else None
        stats['evaluations'] += 1
        # ---- online monitor -------------------------------------------------------------------------
        cur = dict(prios)           # id -> priority (reference view)
        last_sel = {}               # id -> index of last selection
        since_pert = 0              # selections since the last perturbation
        win = {}                    # counts in the current perturbation-free window (after settling)
        win_n = 0
        sel_index = 0
        npert = 0
        newmsg = None               # id of a message loaded after polling started and the ids it still has to let through
        recent = []                 # the last selections (sliding window)
        flapmax = {}                # message whose priority is being changed back and forth -> the larger of the two priorities
        late_added = set()          # messages loaded after polling had started (they begin at poll order 0: known finding)

        def monopolising():
            # a late-added message still catching up: it takes clearly more than its share of the recent selections
            if len(recent) < 12 or len(cur) < 2:
                return False
            tot = sum(Fraction(1, p) for p in cur.values())
            for k in late_added:
                if k in cur and recent.count(k) / float(len(recent)) > float(Fraction(1, cur[k]) / tot) + 0.2:
                    return True
            return False
        stale = h > 0               # g_lastPollOrder (process global) is ahead of the messages of this map: after a reload / an earlier history
        fpstale = set()             # messages that got their first priority in that situation and were not selected since
        fp_all = set()              # ... and all of them since the last reload: a front-of-queue insertion gives such a message one selection,
                                    # its poll order stays far ahead until the others have caught up (known finding)

        def lagging(j):
            if j not in fp_all or j not in cur or len(recent) < 12 or len(cur) < 2:
                return False
            tot = sum(Fraction(1, p) for p in cur.values())
            return recent.count(j) / float(len(recent)) < 0.5 * float(Fraction(1, cur[j]) / tot)
        distinct_p = len(set(prios.values())) >= 2

        def settle():
            return 2 * len(cur) * 9 + 18

        def close_window():
            nonlocal win, win_n, win_new, win_fp
            N = len(cur)
            if win_n >= 50 * N and N >= 1:
                tot = sum(Fraction(1, p) for p in cur.values())
                stats['windows_judged'] += 1
                for i, p in cur.items():
                    exp = win_n * Fraction(1, p) / tot
                    if abs(win.get(i, 0) - exp) > N + 2:
                        viol.append(('share-not-proportional' + (':first-priority-after-reload' if (i in fpstale or win_fp) else ':after-new-message' if win_new else ''), 'history seed=%d #%d: in a perturbation-free window of %d selections message p%d '
                                     '(priority %d among %s) was selected %d times, expected %.1f +-%d' % (
                                         seed, h, win_n, i, p, sorted(cur.values()), win.get(i, 0), float(exp), N + 2)))
                        break
            win = {}
            win_n = 0
            win_new = bool(newmsg)
            win_fp = bool(fpstale)

        win_new = False
        win_fp = False
        for pl, o in zip(plan, outl):
            if pl is None:
                continue
            if pl[0] == 'poll':
                for name in o[1:]:
                    stats['selections'] += 1
                    sel_index += 1
                    since_pert += 1
                    if name == '-':
                        if cur:
                            viol.append(('poll-returns-nothing', 'history seed=%d #%d: getNextPoll returned null with %d pollable messages' % (seed, h, len(cur))))
                        continue
                    i = int(name.split('/p')[1])
                    if i not in cur:
                        viol.append(('removed-message-polled', 'history seed=%d #%d: %s selected after removal' % (seed, h, name)))
                        continue
                    # bounded waiting (stride scheduling bound) with slack while settling after a perturbation
                    N = len(cur)
                    for j, pj in cur.items():
                        lastj = last_sel.get(j)
                        if lastj is None:
                            continue
                        if j in flapmax:
                            pj = max(pj, flapmax[j])      # (it waited part of the time with the larger of its two priorities)
                        bound = sum(-(-pj // pk) + 1 for k, pk in cur.items() if k != j) + 2
                        gap = sel_index - lastj - (1 if j == i else 0)
                        slack = N + 18 if since_pert < settle() else 0
                        if gap > bound + slack and not j == i:
                            viol.append(('starvation' + (':first-priority-after-reload' if (j in fpstale or lagging(j)) else ':after-new-message' if (newmsg or monopolising()) else ''), 'history seed=%d #%d: message p%d (priority %d among %s) not selected for %d selections '
                                         '(bound %d%s), %d selections after the last perturbation' % (
                                             seed, h, j, pj, sorted(cur.values()), gap, bound, '+%d settling' % slack if slack else '', since_pert)))
                            last_sel[j] = sel_index   # report once
                    last_sel[i] = sel_index
                    if fpstale or (fp_all and any(lagging(k) for k in fp_all)):
                        win_fp = True     # the shares of everybody are distorted while such a message waits
                    fpstale.discard(i)
                    recent.append(i)
                    if len(recent) > max(24, 4 * len(cur)):
                        recent.pop(0)
                    if late_added and monopolising():
                        win_new = True
                    if newmsg:
                        # the monopoly of a late-added message (known finding) is over once every other message was selected again after it
                        # AND it no longer takes clearly more than its share of the recent selections (it may let the others through once
                        # and go on catching up)
                        if i != newmsg[0]:
                            newmsg[1].discard(i)
                        newmsg[1] &= set(cur)
                        over = not newmsg[1]
                        if over and newmsg[0] in cur and len(cur) > 1:
                            fair = float(Fraction(1, cur[newmsg[0]]) / sum(Fraction(1, p) for p in cur.values()))
                            took = recent.count(newmsg[0]) / float(len(recent))
                            if took > fair + 0.2 or len(recent) < 12:
                                over = False
                        if over:
                            newmsg = None
                        else:
                            win_new = True
                    if since_pert >= settle():
                        win[i] = win.get(i, 0) + 1
                        win_n += 1
                continue
            # perturbations
            close_window()
            npert += 1
            since_pert = 0
            if pl[0] == 'flap':
                # priority flapping: the waiting window of the message whose priority flaps goes on (with the settling slack); those of the
                # others restart as at any perturbation (their bounds depend on the priority that just changed)
                stats['perturbation_kinds']['flap'] = stats['perturbation_kinds'].get('flap', 0) + 1
                if len(o) > 2 and o[2].isdigit() and pl[1] in cur:
                    cur[pl[1]] = int(o[2])
                last_sel = {k: (v if k == pl[1] else sel_index) for k, v in last_sel.items()}
                flapmax = {pl[1]: pl[3]}
                continue
            flapmax = {}
            last_sel = {k: sel_index for k in last_sel}    # waiting windows restart at every perturbation
            stats['perturbation_kinds'][pl[0]] = stats['perturbation_kinds'].get(pl[0], 0) + 1
            if pl[0] == 'setprio':
                cur[pl[1]] = int(o[2]) if len(o) > 2 and o[2].isdigit() else pl[2]
            elif pl[0] == 'condprio':
                if o[1] == '0':
                    cur[pl[1]] = 5
                    last_sel[pl[1]] = sel_index
                    if newmsg:
                        newmsg[1].add(pl[1])     # joins while a late-added message still monopolises polling: has to be let through as well
                    stats['condition_priorities'] = stats.get('condition_priorities', 0) + 1
                    if stale:
                        fpstale.add(pl[1])
                        fp_all.add(pl[1])
                else:
                    viol.append(('condition-not-resolved', 'history seed=%d #%d: resolveConditions -> %s' % (seed, h, o)))
            elif pl[0] == 'firstprio':
                # an existing message gets its first priority: it joins the poll set and must neither starve nor monopolise
                if len(o) > 2 and o[1] == '1' and o[2].isdigit() and int(o[2]) > 0:
                    cur[pl[1]] = int(o[2])
                    last_sel[pl[1]] = sel_index
                    if newmsg:
                        newmsg[1].add(pl[1])
                    stats['first_priorities'] = stats.get('first_priorities', 0) + 1
                    if stale:
                        fpstale.add(pl[1])
                        fp_all.add(pl[1])
                        stats['first_priorities_after_reload'] = stats.get('first_priorities_after_reload', 0) + 1
                else:
                    viol.append(('first-priority-not-set', 'history seed=%d #%d: SETPRIO on unpolled p%d answered %s' % (seed, h, pl[1], o)))
            elif pl[0] == 'new':
                if o[1] == '0':
                    cur[pl[1]] = pl[2]
                    last_sel[pl[1]] = sel_index     # must be served within its bound from now on
                    if sel_index > 0:
                        newmsg = [pl[1], set(cur) - {pl[1]}]
                        recent = []
                        late_added.add(pl[1])
                        win_new = True
            elif pl[0] == 'remove':
                cur.pop(pl[1], None)
                last_sel.pop(pl[1], None)
            elif pl[0] == 'reload':
                # the priorities are the ones written into the reloaded definitions (a SETPRIO that ebusd answered with another priority
                # than requested, e.g. on a message a condition needs, does not survive the reload)
                cur = {k: v for k, v in pl[1].items() if k in cur}
                last_sel = {k: sel_index for k in cur}
                newmsg = None
                late_added = set()
                fp_all = set()
                stale = True
        close_window()
        stats['perturbations'] += npert
        if distinct_p and npert >= 1:
            stats['nontrivial'] += 1
        if len(stats['samples']) < 1:
            stats['samples'].append({'initial_priorities': prios, 'first_ops': [l.replace('\t', ' ')[:60] for l in lines[2 + n0:2 + n0 + 6]]})
    return stats, viol[:40], None


def main():
    c = Check('C17')
    exe = build_msg_server()
    nsh = 64
    nhist = 475 if c.thorough else 5
    tot = pool_run(c, shard, [(exe, c.seed * 1000 + i, nhist, c.thorough) for i in range(nsh)])
    c.coverage.update({
        'evaluations': int(tot.get('evaluations', 0)),
        'distinct_nontrivial': int(tot.get('nontrivial', 0)),
        'rule': 'histories of 2000..6000 (thorough 20000) getNextPoll calls on 2..12 poll messages with priorities 1..9 (30% all equal), '
                'virtual clock advancing 0..5 s per 5 selections, perturbed with probability 0.35 after each group by setPollPriority, '
                'addPollMessage(front/back), a newly loaded poll message, removal, or reload of all definitions into a new map. '
                'non-trivial = history with >=2 distinct priorities and >=1 perturbation (histories are distinct by their PRNG stream)',
        'selections_observed': int(tot.get('selections', 0)), 'perturbations': int(tot.get('perturbations', 0)),
        'perturbation_kinds': tot.get('perturbation_kinds', {}), 'proportionality_windows_judged': int(tot.get('windows_judged', 0)),
        'samples': tot.get('samples', []),
    })
    c.assumptions += ['bounded wait: between two selections of message i at most sum_j!=i (ceil(p_i/p_j)+1)+2 other selections (stride scheduling), windows restart at each perturbation, '
                      'plus N+18 while settling (2*9*N+18 selections) after a perturbation',
                      'proportionality judged on perturbation-free windows of >= 50*N selections after settling, tolerance N+2',
                      'priorities restricted to 1..9 as the command interface does']
    c.finish(floor_nontrivial=100)


if __name__ == '__main__':
    guarded_main(main)
