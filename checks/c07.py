#!/usr/bin/env python3
"""C07: writes are range-safe. Numeric texts around every width/range boundary are encoded through the real
DataField::write; an arbitrary-precision reference decides whether acceptance was allowed and whether the encoded
value decodes to within one resolution step of the request."""
import os, sys
sys.path.insert(0, os.path.dirname(os.path.abspath(__file__)))
from codec_jobs import *
from fractions import Fraction
from decimal import Decimal
import struct

F32MAX = Fraction(struct.unpack('<f', struct.pack('<I', 0x7effffff))[0])


def fmt_frac(v, rng):
    """a decimal text for the exact rational v (v has a finite decimal expansion here)"""
    sign = '-' if v < 0 else ''
    a = abs(v)
    ip = a.numerator // a.denominator
    fr = a - ip
    s = str(ip)
    if fr:
        digs = ''
        for _ in range(12):
            fr *= 10
            d = fr.numerator // fr.denominator
            digs += str(d)
            fr -= d
            if not fr:
                break
        s += '.' + digs
    return sign + s


def texts_for(t, div, rmin, rmax, rng, n):
    """boundary-concentrated numeric texts (value units) for a type with effective divisor div"""
    scale = Fraction(1, div) if div > 1 else Fraction(-div) if div < 0 else Fraction(1)
    raws = set()
    for k in (7, 8, 15, 16, 23, 24, 31, 32, 63, 64):
        for d in (-1, 0, 1):
            raws.add((1 << k) + d)
            raws.add(-((1 << k) + d))
    if t.lo is not None:
        for b in (t.lo, t.hi, rmin if rmin is not None else t.lo, rmax if rmax is not None else t.hi):
            for d in (-2, -1, 0, 1, 2):
                raws.add(b + d)
    if t.repl is not None:
        raws.add(t.repl)
        raws.add(RC._s(t.repl, t.bits))
    raws |= {0, 1, -1, 2, 9, 10, 99, 100, 255, 256, 65535, 65536}
    vals = [Fraction(r) * scale for r in raws]
    for r in list(raws)[:40]:
        vals.append(Fraction(r) * scale + scale / 2)       # exactly between two raw steps
        vals.append(Fraction(r) * scale + scale * Fraction(49, 100))
        vals.append(Fraction(r) * scale - scale * Fraction(51, 100))
    for _ in range(n):
        vals.append(Fraction(rng.randrange(-(1 << rng.randrange(1, 70)), 1 << rng.randrange(1, 70))) * scale)
    out = set()
    for v in vals:
        s = fmt_frac(v, rng)
        out.add(s)
        r = rng.random()
        if r < 0.08:
            out.add(' ' + s)
        elif r < 0.14:
            out.add('+' + s if not s.startswith('-') else s)
        elif r < 0.20 and '.' not in s:
            out.add(s + '.0')
        elif r < 0.26 and '.' not in s:
            out.add(s + '.' + str(rng.randrange(1, 10)))
        elif r < 0.32 and v == int(v) and abs(v) < 10 ** 20:
            out.add(('%se0' % s))
            out.add('%s.0e1' % (fmt_frac(v / 10, rng)) if (v / 10).denominator in (1, 2, 5, 10) else s)
        elif r < 0.36 and v == int(v) and 0 <= v < 2 ** 70:
            out.add(hex(int(v)))
        elif r < 0.40:
            out.add(s + rng.choice(['x', ' ', 'abc', '..', ',5', ';', 'e', '-', ' 1']))
        elif r < 0.43 and v == int(v):
            out.add('0' + s if not s.startswith('-') else '-0' + s[1:])
    out |= {'', ' ', 'nan', 'NaN', 'inf', '-inf', 'infinity', '1e999', '-1e999', '1e-999', '0x', '--1', '1-', '1..2', '.', '-', '+',
            '1e', 'e1', '0x1g', '1,5', '1 2', '99999999999999999999999999', '-99999999999999999999999999', '18446744073709551615',
            '18446744073709551616', '18446744073709551617', '9223372036854775807', '9223372036854775808', '-9223372036854775808',
            '-9223372036854775809', '4294967295', '4294967296', '4294967297', '-4294967295', '-4294967297', '1.5e3', '2.5e-1',
            '0.00000000000000000001', '1e25', '123456789012345678901234.5'}
    return sorted(out)


def build(rng, thorough):
    jobs = []
    n = 1500 if thorough else 60
    for tid, t in RC.NUMS.items():
        if RC.DAYF in t.flags:
            continue
        dvs = ['']
        if t.div == 1 and RC.FIX not in t.flags:
            dvs += ['10', '-10'] + (['100', '1000', '-100'] if thorough else [])
        elif t.div > 1:
            dvs += ['10'] if thorough else []
        for dv in dvs:
            div = RC.combine_divisor(t.div, int(dv) if dv else 0)
            if div is None:
                continue
            ranges = [('', None, None)]
            if RC.EXP not in t.flags and RC.BCD not in t.flags and RC.HCD not in t.flags and dv == '' and t.div == 1:
                if RC.SIG in t.flags:
                    ranges += [('-5-10', -5, 10), ('-100--3', -100, -3), ('1-3', 1, 3), ('0-100', 0, 100)]
                else:
                    ranges += [('1-3', 1, 3), ('10-200', 10, 200)]
            for rs, rmin, rmax in ranges:
                jobs.append(Job(tid, dv, rng=rs, texts=texts_for(t, div, rmin, rmax, rng, n),
                                meta={'kind': 'num', 'tid': tid, 'dv': dv, 'div': div, 'rmin': rmin, 'rmax': rmax}))
    # value lists: names, numbers in/out of the list, numbers wrapping onto list members
    for tid in ('UCH', 'UIN', 'ULG', 'SCH'):
        vals = {0: 'off', 1: 'on', 5: 'five', 100: 'hundred'}
        dv = ';'.join('%d=%s' % kv for kv in vals.items())
        texts = ['off', 'on', 'five', 'hundred', 'OFF', 'of', 'offf', 'o', 'On', 'fiv', 'fivefive', 'hundred ', 'on_demand', '', '-', '0', '1', '5', '100', '2', '6', '99', '101', '255', '256', '257',
                 '65536', '65537', '65541', '4294967296', '4294967297', '4294967301', '4294967396', '18446744073709551617', '-1', '-4294967295',
                 '1.5', '1x', ' 1', '0x1', '1e0', '05']
        jobs.append(Job(tid, dv, texts=texts, meta={'kind': 'list', 'tid': tid, 'vals': vals}))
    for first, mx in RC.BIT_MAX.items():
        for nb in sorted({1, mx}):
            typ = 'BI7' if first == 7 else 'BI%d:%d' % (first, nb)
            texts = [str(v) for v in range(-2, (1 << nb) + 3)] + ['256', '257', '4294967296', '4294967297', '1.5', '1x', '', 'nan', '0x1', '1e0']
            jobs.append(Job(typ, texts=texts, meta={'kind': 'bits', 'tid': typ, 'first': first, 'n': nb}))
    return jobs


def judge(job, data, f, stats):
    m = job.meta
    if data is None:
        if f[2] != '0':
            return [('define-failed:%s' % job.typ, 'create(%s,%s,%s) -> %s' % (job.typ, job.dv, job.rng, f[2]))]
        return None
    text = data
    tid = m['tid']
    wcode = int(f[1])
    ok = wcode == 0
    what = '%s dv=%r range=%r text=%r' % (job.typ, job.dv, job.rng, text)
    whex = f[2] if len(f) > 2 else ''
    k = m['kind']
    stats['judged'] += 1
    if k == 'list':
        t = RC.NUMS[tid]
        if text == '-':
            return None
        if text in m['vals'].values():
            stats['nontrivial'] += 1
            want = [kk for kk, vv in m['vals'].items() if vv == text][0]
            if not ok or RC.raw_of(t, bytes.fromhex(whex)) != want:
                return [('list-name:%s' % tid, what + ' -> code %d %s' % (wcode, whex))]
            return None
        p = RC.parse_number(text)
        if p is not None and p[1] in ('int', 'intfrac', 'lead0') and p[0] != 'huge' and int(p[0]) in m['vals'] and p[0] >= 0:
            return None   # number of a list member (fraction digits ignored): may be accepted
        stats['nontrivial'] += 1
        if ok:
            return [('list-accepts-unlisted:%s' % tid, what + ' accepted -> %s (wraps onto a list member or is no member)' % whex)]
        return None
    if k == 'bits':
        p = RC.parse_number(text)
        lim = 1 << m['n']
        if p is None or p[0] == 'huge':
            return [('accepts-malformed:%s' % tid, what + ' -> %s' % whex)] if ok else None
        v = p[0]
        stats['nontrivial'] += 1
        if ok:
            got = (bytes.fromhex(whex)[0] >> m['first']) & (lim - 1)
            if not (0 <= v < lim + 0) and not (0 <= int(v) < lim and p[1] == 'intfrac'):
                return [('accepts-out-of-range:%s' % tid, what + ' -> %s' % whex)]
            if abs(got - v) > 1:
                return [('wrong-value:%s' % tid, what + ' -> %s' % whex)]
        elif p[1] == 'int' and 0 <= v < lim:
            return [('rejects-valid:%s' % tid, what + ' -> code %d' % wcode)]
        return None
    t = RC.NUMS[tid]
    div = m['div']
    if text == '-':
        if RC.REQ in t.flags and ok:
            return [('accepts-null-without-replacement:%s' % tid, what)]
        return None
    p = RC.parse_number(text)
    if p is None:
        stats['malformed'] = stats.get('malformed', 0) + 1
        if ok:
            return [('accepts-malformed:%s' % tid, what + ' accepted -> %s' % whex)]
        return None
    v, form = p
    stats['nontrivial'] += 1
    if v == 'huge':
        return [('accepts-overflow:%s' % tid, what + ' accepted -> %s' % whex)] if ok else None
    step = Fraction(1, div) if div > 1 else Fraction(-div) if div < 0 else Fraction(1)
    if RC.EXP in t.flags:
        lim = F32MAX * (step if div != 1 else 1)
        if ok:
            if abs(v) > lim * Fraction(100001, 100000):
                return [('accepts-out-of-range:%s' % tid, what + ' accepted -> %s' % whex)]
            if len(f) >= 6 and int(f[4]) == 0:
                try:
                    w = Fraction(Decimal(unesc(f[5])))
                    if abs(w - v) > abs(v) * Fraction(2, 10 ** 5) + Fraction(1, 10 ** 6) + step * Fraction(1, 10 ** 6):
                        return [('wrong-value:%s' % tid, what + ' -> %s decodes to %s' % (whex, unesc(f[5])))]
                except Exception:
                    pass
        return None
    # admissible raw interval
    lo, hi = t.lo, t.hi
    if m['rmin'] is not None:
        lo, hi = max(lo, m['rmin']), min(hi, m['rmax'])
    rawx = v / step                      # exact raw position of the request
    inside = lo <= rawx <= hi            # request itself within range
    near = lo - 1 < rawx < hi + 1        # could round into the range
    alt = None
    if form == 'lead0' and div == 1:
        try:
            alt = Fraction(int(text.strip().lstrip('+-'), 8) * (-1 if text.strip().startswith('-') else 1))
        except ValueError:
            alt = None
    if ok:
        if len(f) < 6 or int(f[4]) != 0:
            # accepted, but what was written does not decode: a replacement/illegal pattern went to the bus
            if near or (alt is not None and lo <= alt <= hi):
                return [('accepted-but-undecodable:%s' % tid, what + ' -> %s decodes with %s' % (whex, f[4] if len(f) > 4 else '?'))]
            return [('accepts-out-of-range:%s' % tid, what + ' accepted -> %s' % whex)]
        rtext = unesc(f[5])
        if rtext == '-':
            return [('writes-replacement:%s' % tid, what + ' accepted -> %s (null)' % whex)]
        try:
            w = Fraction(Decimal(rtext))
        except Exception:
            return [('accepted-but-undecodable:%s' % tid, what + ' -> %s -> %r' % (whex, rtext))]
        tol = step + abs(v) * Fraction(1, 1 << 21) if div != 1 else step
        if abs(w - v) <= tol:
            return None
        if alt is not None and abs(w - alt) <= tol:
            stats['octal_reading'] = stats.get('octal_reading', 0) + 1
            return None
        if not near:
            return [('accepts-out-of-range:%s' % tid, what + ' accepted -> %s = %s' % (whex, rtext))]
        return [('wrong-value:%s' % tid, what + ' -> %s = %s' % (whex, rtext))]
    # rejected
    if form == 'int' and lo + 1 <= rawx <= hi - 1 and rawx == int(rawx) and abs(v) < (1 << 62):
        return [('rejects-valid:%s' % tid, what + ' -> code %d' % wcode)]
    return None


def main():
    c = Check('C07')
    exe = build_harness('asan', 'codec_server', ['codec_server.cpp'])
    rng = random.Random(c.seed)
    jobs = build(rng, c.thorough)
    tot = run_jobs(c, exe, jobs, 'judge', 'c07', chunk=20000)
    c.coverage.update({
        'evaluations': int(tot.get('evaluations', 0)),
        'distinct_nontrivial': int(tot.get('nontrivial', 0)),
        'rule': 'every numeric base type x divisor {1,10,-10(,100,1000,-100)} x range column {none, two derived ranges} x a set of distinct '
                'texts: +-(2^k+{-1,0,1}) for k in 7..64, min/max/range bounds +-2, replacement, half-step values, random magnitudes up to '
                '2^70, in decimal/fraction/exponent/hex/leading-blank/leading-zero/trailing-garbage forms, and fixed malformed/overflow texts; '
                'value lists with wrapping numbers; bit fields. non-trivial = well-formed number (not the null token), texts per job are a set',
        'judged': int(tot.get('judged', 0)), 'malformed_texts': int(tot.get('malformed', 0)),
        'octal_readings_tolerated': int(tot.get('octal_reading', 0)), 'jobs': len(jobs),
        'samples': [{'type': j.typ, 'divisor': j.dv, 'range': j.rng, 'texts': j.texts[:6]} for j in jobs[:3]],
    })
    c.assumptions += ['integers with a leading zero may be read as decimal or C octal (strtol base 0); both are tolerated',
                      'a trailing fraction on an integer field may be dropped (documented in the suite: 38.5 -> 38), within one step',
                      'rejections of valid input are only reported for plain integers strictly inside the range']
    c.finish(floor_nontrivial=10000)


if __name__ == '__main__':
    guarded_main(main)
