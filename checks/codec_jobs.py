"""Generation of the decode/round-trip workload shared by C05 and C06, and the decode expectation for a job."""
import datetime
import random
from codec_common import *

JS = OF_JSON | OF_SHORT


def boundary_raws(nbytes):
    bits = nbytes * 8
    s = set()
    for k in (0, 1, 7, 8, 15, 16, 23, 24, 31, 32):
        if k <= bits:
            for d in (-2, -1, 0, 1, 2):
                v = (1 << k) + d
                if 0 <= v < (1 << bits):
                    s.add(v)
    for v in (0, 1, 2, 0x99, 0x9999, 0x999999, 0x99999999, 0x63, 0x6363, 0x636363, 0x63636363, 0x64, 0x9a, 0xa0, 0x7fc00000,
              0xfeffffff, 0x7effffff, 0x7f800000, 0xff800000, 0x7f7fffff, 0x00800000, 0x3f800000, 0xbf800000, 0x80000000):
        if v < (1 << bits):
            s.add(v)
    return sorted(s)


def le(v, n):
    return bytes((v >> (8 * i)) & 0xff for i in range(n))


def bcdb(v):
    return ((v // 10) << 4) | (v % 10)


def build_jobs(rng, thorough):
    jobs = []
    nrand = 200000 if thorough else 12000
    # numeric base types
    for tid, t in RC.NUMS.items():
        divs = ['']
        if t.div == 1 and RC.FIX not in t.flags and RC.DAYF not in t.flags:
            divs += ['10', '-10'] + (['100', '1000', '-100'] if thorough or t.nbytes == 1 else [])
        elif t.div > 1 and RC.EXP not in t.flags:
            divs += ['10'] if thorough or t.id in ('D1C', 'D2C') else []
        if RC.EXP in t.flags:
            divs = ['', '10', '-10'] if thorough else ['', '10']
        for dv in divs:
            for fmt in ((0, JS) if dv == '' or thorough else (0,)):
                meta = {'kind': 'num', 'tid': tid, 'dv': dv}
                if t.nbytes <= 2:
                    jobs.append(Job(tid, dv, fmt=fmt, sweep=(t.nbytes, 0, 1 << (8 * t.nbytes)), meta=meta))
                else:
                    pats = [le(v, t.nbytes) for v in boundary_raws(t.nbytes)]
                    if RC.BCD in t.flags or RC.HCD in t.flags:
                        # digit patterns: mostly valid digits with occasional invalid nibble
                        for _ in range(nrand // 2):
                            bs = []
                            for _i in range(t.nbytes):
                                if RC.HCD in t.flags:
                                    bs.append(rng.randrange(0, 100) if rng.random() < 0.95 else rng.randrange(256))
                                else:
                                    bs.append(bcdb(rng.randrange(100)) if rng.random() < 0.95 else rng.randrange(256))
                            pats.append(bytes(bs))
                    for _ in range(nrand):
                        if rng.random() < 0.5:
                            pats.append(le(rng.getrandbits(8 * t.nbytes), t.nbytes))
                        else:  # small magnitudes (inside the float exactness limit) in both signs
                            v = rng.getrandbits(rng.randrange(1, 25))
                            if rng.random() < 0.5 and RC.SIG in t.flags:
                                v = (-v) & ((1 << t.bits) - 1)
                            pats.append(le(v, t.nbytes))
                    jobs.append(Job(tid, dv, fmt=fmt, patterns=pats, meta=meta))
    # value lists on integer types
    for tid in ('UCH', 'SCH', 'UIN', 'BCD', 'U1L'):
        t = RC.NUMS[tid]
        vals = {0: 'off', 1: 'on', 5: 'five', 100 if tid != 'BCD' else 99: 'big'}
        if tid == 'SCH':
            vals = {0: 'off', 1: 'on', 0xff: 'minus1', 0x7f: 'max'}
        # second list: names that are prefixes / case variants of each other (lookup by name must be exact)
        vals2 = {1: 'on', 2: 'on_demand', 3: 'ON', 4: 'o', 7: 'offline', 8: 'off', 9: 'Off', 10: 'on demand', 11: 'on_'}
        # third list: numeric looking names that collide with other raw values (lookup must try the names first)
        vals3 = {0: '1', 1: '10', 2: '20', 10: '100', 3: '1.5', 4: '2', 20: '0', 5: '05'}
        for vl in (vals, vals2, vals3):
            dv = ';'.join('%d=%s' % kv for kv in vl.items())
            for fmt in (0, OF_NUMERIC, JS, OF_VALUENAME):
                jobs.append(Job(tid, dv, fmt=fmt, sweep=(t.nbytes, 0, 1 << (8 * t.nbytes)) if t.nbytes == 1 else None,
                                patterns=None if t.nbytes == 1 else [le(v, 2) for v in list(range(0, 300)) + [0xffff, 0xfffe, 0x8000]],
                                meta={'kind': 'list', 'tid': tid, 'vals': vl}))
    # bit types
    for first, mx in RC.BIT_MAX.items():
        for n in range(1, mx + 1):
            typ = 'BI%d' % first + ('' if n == 1 and first == 7 else ':%d' % n)
            if first == 7 and n == 1:
                typ = 'BI7'
            for fmt in (0, JS):
                jobs.append(Job(typ, fmt=fmt, sweep=(1, 0, 256), meta={'kind': 'bits', 'first': first, 'n': n}))
        jobs.append(Job('BI%d' % first, sweep=(1, 0, 256), meta={'kind': 'bits', 'first': first, 'n': 1}))
    # dates
    d0 = datetime.date(2000, 1, 1)
    alldays = [d0 + datetime.timedelta(days=i) for i in range(36525)]
    for tid in ('BDA', 'BDA:3', 'BDZ', 'HDA', 'HDA:3'):
        t = RC.DTS[tid]
        pats = []
        for d in alldays:
            dd, mm, yy = d.day, d.month, d.year - 2000
            if t.bcd:
                dd, mm, yy = bcdb(dd), bcdb(mm), bcdb(yy)
            if t.nbytes == 4:
                wd = d.weekday()  # Mon=0
                w = wd + 1 if t.wd == 'mon1' else wd
                pats.append(bytes([dd, mm, w, yy]))
                if rng.random() < 0.15:
                    pats.append(bytes([dd, mm, rng.randrange(256), yy]))
            else:
                pats.append(bytes([dd, mm, yy]))
        pats += [bytes([0xff] * t.nbytes), bytes([0] * t.nbytes)]
        for _ in range(30000 if thorough else 4000):
            pats.append(bytes(rng.choice([rng.randrange(256), bcdb(rng.randrange(100)), 0xff, 0, 0x31, 0x32, 0x12, 0x13, 0x1f, 0x20, 0x0c, 0x0d, 0x99, 0x9a, 0x63, 0x64])
                              for _ in range(t.nbytes)))
        for fmt in (0, JS):
            jobs.append(Job(tid, fmt=fmt, patterns=pats if fmt == 0 else pats[::7], meta={'kind': 'dt', 'tid': tid}))
    jobs.append(Job('DAY', sweep=(2, 0, 65536), meta={'kind': 'dt', 'tid': 'DAY'}))
    jobs.append(Job('DAY', fmt=JS, patterns=[le(v, 2) for v in range(0, 65536, 13)], meta={'kind': 'dt', 'tid': 'DAY'}))
    pats = []
    for dayno in range(0, 33238):
        pats.append(le(dayno * 1440 + rng.randrange(1440), 4))
    pats += [le(v, 4) for v in (0, 1, 1439, 1440, 0x02da4e1f, 0x02da4e20, 0xffffffff, 0x80000000, 0x7fffffff)]
    for _ in range(100000 if thorough else 5000):
        pats.append(le(rng.getrandbits(32), 4))
    jobs.append(Job('DTM', patterns=pats, meta={'kind': 'dt', 'tid': 'DTM'}))
    for tid in ('BTM', 'HTM', 'VTM', 'MIN'):
        for fmt in (0, JS):
            jobs.append(Job(tid, fmt=fmt, sweep=(2, 0, 65536), meta={'kind': 'dt', 'tid': tid}))
    for tid in ('TTM', 'TTH', 'TTQ'):
        for fmt in (0, JS):
            jobs.append(Job(tid, fmt=fmt, sweep=(1, 0, 256), meta={'kind': 'dt', 'tid': tid}))
    for tid in ('BTI', 'HTI', 'VTI'):
        t = RC.DTS[tid]
        pats = []
        for sec in range(0, 86400, 1 if thorough else 7):
            hh, mm, ss = sec // 3600, (sec // 60) % 60, sec % 60
            p = [hh, mm, ss]
            if t.bcd:
                p = [bcdb(x) for x in p]
            if t.rev:
                p = p[::-1]
            pats.append(bytes(p))
        for _ in range(60000 if thorough else 8000):
            pats.append(bytes(rng.choice([rng.randrange(256), bcdb(rng.randrange(100)), 0xff, 0x63, 0, 0x24, 0x18, 0x19, 0x3b, 0x3c, 0x59, 0x5a, 0x60])
                              for _ in range(3)))
        jobs.append(Job(tid, patterns=pats, meta={'kind': 'dt', 'tid': tid}))
    # strings
    for tid in ('STR', 'NTS', 'HEX'):
        for ln in range(1, 25):
            pats = []
            for _ in range(60 if thorough else 12):
                r = rng.random()
                if r < 0.5:
                    body = bytes(rng.randrange(0x20, 0x7f) for _ in range(rng.randrange(0, ln + 1)))
                    pad = b' ' if tid == 'STR' else b'\0'
                    pats.append((body + pad * ln)[:ln])
                elif r < 0.8:
                    pats.append(bytes(rng.randrange(0x20, 0x7f) for _ in range(ln)))
                else:
                    pats.append(bytes(rng.randrange(256) for _ in range(ln)))
            for fmt in (0, JS):
                jobs.append(Job('%s:%d' % (tid, ln), fmt=fmt, patterns=pats, meta={'kind': 'str', 'tid': tid, 'len': ln}))
    # contrib type
    for part in ('m', 's'):
        jobs.append(Job('TEM_P', part=part, sweep=(2, 0, 65536), meta={'kind': 'tem', 'part': part}, is_write=(part == 'm')))
    return jobs


def expect_decode(job, data):
    m = job.meta
    json = bool(job.fmt & OF_JSON)
    k = m['kind']
    if k == 'num':
        t = RC.NUMS[m['tid']]
        extra = int(m['dv']) if m['dv'] else 0
        div = RC.combine_divisor(t.div, extra)
        if div is None:
            return ('any',)
        if RC.DAYF in t.flags:
            raw = data[0]
            if raw == t.repl:
                return ('null',)
            if t.lo <= raw <= t.hi:
                s = RC.DAYNAMES[raw - t.lo]
                return ('text', '"%s"' % s if json else s)
            return ('any',)
        return RC.decode_num(t, data, div, json)
    if k == 'list':
        t = RC.NUMS[m['tid']]
        raw = RC.raw_of(t, data)
        if raw == ('err',):
            return ('err',)
        if isinstance(raw, tuple):
            return ('null',) if raw[1] else ('any',)
        if t.repl is not None and raw == t.repl and raw not in m['vals']:
            return ('null',)
        if raw in m['vals']:
            name = m['vals'][raw]
            if job.fmt & OF_NUMERIC:
                return ('text', str(raw))
            if json:
                return ('text', '"%s"' % name)
            if job.fmt & OF_VALUENAME:
                return ('text', '%d=%s' % (raw, name))
            return ('text', name)
        return ('any',)   # value outside the list: raw number fallback, not part of the statement
    if k == 'bits':
        return RC.decode_bits(m['first'], m['n'], data, json)
    if k == 'dt':
        return RC.decode_dt(RC.DTS[m['tid']], data, json)
    if k == 'str':
        return RC.decode_str(m['tid'], data, json)
    if k == 'tem':
        v = data[0] | (data[1] << 8)
        if v == 0xffff:
            return ('null',)
        if m['part'] == 'm':
            grp, num = v & 0x1f, (v >> 8) & 0x7f
        else:
            grp, num = (v >> 7) & 0x1f, v & 0x7f
        s = '%02d-%03d' % (grp, num)
        return ('text', '"%s"' % s if json else s)
    return ('any',)


def strip_json(job, text):
    if job.fmt & OF_JSON and text.startswith('"0":'):
        return text[4:]
    return text
