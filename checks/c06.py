#!/usr/bin/env python3
"""C06: encoding inverts decoding. (1) every decodable pattern of the C05 workload is written back from its text and
must reproduce the bytes on the bits the field owns (null -> canonical replacement, weekday regenerated);
(2) user-style texts: encode -> decode -> encode must be a fixed point."""
import os, sys
sys.path.insert(0, os.path.dirname(os.path.abspath(__file__)))
from codec_jobs import *
import struct
from fractions import Fraction
from decimal import Decimal


def canon_null(t):
    bs = le(t.repl, t.nbytes)
    return bs[::-1] if RC.REV in t.flags else bs


def f32(raw):
    return struct.unpack('<f', struct.pack('<I', raw))[0]


def judge(job, data, f, stats):
    m = job.meta
    if data is None:
        return None
    tid = m.get('tid', job.typ)
    if isinstance(data, str):   # text job: e wcode whex used [rcode rtext [w2code w2hex]]
        wcode = int(f[1])
        if wcode != 0:
            stats['rejected_texts'] = stats.get('rejected_texts', 0) + 1
            return None
        stats['judged'] += 1
        stats['nontrivial'] += 1
        whex = f[2]
        if len(f) < 6:
            return [('fixpoint-incomplete:%s' % tid, 'text=%r -> %s but no decode result' % (data, whex))]
        rcode = int(f[4])
        rtext = unesc(f[5])
        if rcode != 0:
            if m.get('kind') == 'num' and RC.EXP in RC.NUMS[tid].flags and rcode > 0:
                return None
            return [('fixpoint-decode-fails:%s' % tid, '%s dv=%r text=%r encodes to %s which decodes with code %d' % (job.typ, job.dv, data, whex, rcode))]
        if len(f) < 8:
            return [('fixpoint-incomplete:%s' % tid, 'text=%r' % data)]
        w2code, w2hex = int(f[6]), f[7]
        if w2code != 0 and m.get('wide_lossy'):
            return None
        if w2code != 0:
            return [('fixpoint-reencode-fails:%s' % tid, '%s dv=%r text=%r -> %s -> %r -> code %d' % (job.typ, job.dv, data, whex, rtext, w2code))]
        if w2hex != whex:
            if m.get('kind') == 'num' and RC.EXP in RC.NUMS[tid].flags:
                a, b = f32(int.from_bytes(bytes.fromhex(whex), 'little' if RC.REV not in RC.NUMS[tid].flags else 'big')), \
                       f32(int.from_bytes(bytes.fromhex(w2hex), 'little' if RC.REV not in RC.NUMS[tid].flags else 'big'))
                if abs(a - b) <= max(abs(a), abs(b)) * 1e-5 + 1e-6:
                    return None
            if m.get('kind') == 'num' and m.get('wide_lossy'):
                return None
            return [('fixpoint-differs:%s' % tid, '%s dv=%r text=%r -> %s -> %r -> %s' % (job.typ, job.dv, data, whex, rtext, w2hex))]
        return None
    code = int(f[2])
    if code != 0:
        return None
    exp = expect_decode(job, data)
    if exp[0] in ('any', 'err_or_any', 'err'):
        stats['unjudged'] += 1
        return None
    text = unesc(f[3])
    stats['judged'] += 1
    if any(data) and exp[0] != 'null':
        stats['nontrivial'] += 1
    if len(f) < 9:
        return [('roundtrip-incomplete:%s' % tid, 'data=%s line=%r' % (data.hex(), f))]
    wcode, whex, w2code, w2hex = int(f[4]), f[5], int(f[7]), f[8]
    what = '%s dv=%r data=%s text=%r' % (job.typ, job.dv, data.hex(), text)
    wide = False
    if m['kind'] == 'num' and job.dv and RC.EXP not in RC.NUMS[tid].flags and exp[0] == 'val':
        # the text form is lossless only where the float32 arithmetic of the decoder still resolves one raw step:
        # |text - exact| < half a raw step.  Outside (large magnitudes) the round trip is judged with tolerance only.
        t = RC.NUMS[tid]
        div = RC.combine_divisor(t.div, int(job.dv))
        step = Fraction(1, div) if div > 1 else Fraction(-div)
        try:
            if abs(Fraction(Decimal(text)) - exp[1]) >= step / 2:
                wide = True
        except Exception:
            wide = True
    if wcode != 0:
        if wide:
            stats['unjudged'] += 1
            return None
        return [('roundtrip-encode-fails:%s' % tid, what + ' -> encode code %d' % wcode)]
    got = bytes.fromhex(whex)
    k = m['kind']
    want = data
    mask = None
    if k == 'num':
        t = RC.NUMS[tid]
        if exp[0] == 'null':
            want = canon_null(t)
            stats['nulls'] += 1
        elif RC.EXP in t.flags:
            order = 'big' if RC.REV in t.flags else 'little'
            a, b = f32(int.from_bytes(data, order)), f32(int.from_bytes(got, order)) if len(got) == 4 else float('nan')
            if not (abs(a - b) <= abs(a) * 2e-5 + (1e-6 if job.dv else 0)):
                return [('roundtrip-float:%s' % tid, what + ' -> %s (%r vs %r)' % (whex, a, b))]
            return None
        elif job.dv:
            raw = RC.raw_of(t, data)
            raw2 = RC.raw_of(t, got) if len(got) == t.nbytes else None
            if wide:
                # beyond the exactness limit of the float arithmetic: within relative 2^-22
                if not isinstance(raw2, int) or abs(_signed(t, raw2) - _signed(t, raw)) > 1 + abs(_signed(t, raw)) * 2e-5:
                    return [('roundtrip-wide:%s' % tid, what + ' -> %s' % whex)]
                return None
    elif k == 'list':
        t = RC.NUMS[tid]
        if exp[0] == 'null':
            want = canon_null(t)
    elif k == 'bits':
        mask = ((1 << m['n']) - 1) << m['first']
    elif k == 'dt':
        t = RC.DTS[tid]
        if t.dkind == 'date' and exp[1].strip('"') == '-.-.-':
            want = bytes([t.repl if i != 2 or t.nbytes == 3 else got[2] if len(got) > 2 else 0 for i in range(t.nbytes)])
        elif t.dkind == 'date' and t.nbytes == 4:
            dd, mm, yyyy = [int(x) for x in exp[1].split('.')]
            wd = datetime.date(yyyy, mm, dd).weekday()
            w = wd + 1 if t.wd == 'mon1' else wd
            want = bytes([data[0], data[1], w, data[3]])
        elif t.dkind == 'trunc':
            if t.bits < 8:
                mask = (1 << t.bits) - 1
        elif exp[1].strip('"').replace(':', '').replace('.', '') == '-' * (exp[1].count(':') + exp[1].count('.') + 1):
            want = bytes([t.repl] * t.nbytes) if t.dkind != 'days' and t.dkind != 'minutes' else bytes([0xff] * t.nbytes)
    elif k == 'str':
        if tid != 'HEX':
            def strip(b):
                i = b.find(b'\0')
                if i >= 0:
                    b = b[:i]
                return b.rstrip(b' ')
            if len(got) != len(data) or strip(got) != strip(data):
                return [('roundtrip-string:%s' % tid, what + ' -> %s' % whex)]
            return None
    elif k == 'tem':
        v = data[0] | (data[1] << 8)
        used = 0x7f1f if m['part'] == 'm' else 0x0fff
        if v != 0xffff and v & ~used:
            stats['unjudged'] += 1
            return None
    if mask is not None:
        if len(got) != 1 or (got[0] & mask) != (data[0] & mask):
            return [('roundtrip-bits:%s' % tid, what + ' -> %s (mask %02x)' % (whex, mask))]
        if got[0] & ~mask & 0xff:
            return [('roundtrip-foreign-bits-set:%s' % tid, what + ' -> %s written into empty data (mask %02x)' % (whex, mask))]
        if w2code != 0 or (bytes.fromhex(w2hex)[0] & mask) != (data[0] & mask):
            return [('roundtrip-bits-prefilled:%s' % tid, what + ' -> %s over prefill' % w2hex)]
        return None
    if got != want:
        return [('roundtrip-differs:%s%s' % (tid, ':null' if exp[0] == 'null' else ''), what + ' -> %s, expected %s' % (whex, want.hex()))]
    # writing over existing data (same offsets) must fully overwrite whole-byte fields
    got2 = bytes.fromhex(w2hex)[:len(want)]
    if k == 'dt' and RC.DTS[tid].dkind == 'date' and len(want) == 4 and exp[1].strip('"') == '-.-.-' and len(got2) == 4:
        got2 = got2[:2] + want[2:3] + got2[3:]   # weekday byte of a null date is not judged
    if w2code != 0 or got2 != want:
        return [('roundtrip-overwrite:%s' % tid, what + ' over prefill -> code %d %s' % (w2code, w2hex))]
    return None


def _signed(t, raw):
    return raw - (1 << t.bits) if RC.SIG in t.flags and raw & (1 << (t.bits - 1)) else raw


def text_jobs(rng, thorough):
    """user-style texts per type for the encode->decode->encode fixed point"""
    jobs = []
    n = 4000 if thorough else 400

    def numtexts(t, div):
        out = ['-', '0', '1', '-1', '+1', ' 1', '01', '007', '1.', '1.0', '1.5', '2.5', '0.5', '-0.5', '1.25', '1.005', '0.1', '0.049',
               '1e1', '1E2', '1.5e1', '12.3456789', '0x10', '0X1f', '-0x1']
        lim = max(abs(t.lo if t.lo is not None else 0), abs(t.hi if t.hi is not None else 0), 1) if RC.EXP not in t.flags else 10 ** 6
        for _ in range(n):
            r = rng.random()
            if r < 0.3:
                v = rng.randrange(-lim - 2, lim + 3)
            elif r < 0.6:
                v = rng.choice([t.lo or 0, t.hi or 0, 0]) + rng.randrange(-3, 4)
            else:
                v = rng.randrange(-1000, 1001)
            d = abs(div) if div else 1
            if div and div > 1:
                s = '%s%d.%0*d' % ('-' if v < 0 else '', abs(v) // d, rng.randrange(0, 6), rng.randrange(0, 10 ** 5) % (10 ** rng.randrange(1, 6))) \
                    if rng.random() < 0.5 else repr(v / d)
            elif div and div < 0:
                s = str(v * d + rng.randrange(0, d))
            else:
                s = str(v) if rng.random() < 0.8 else '%d.%d' % (v, rng.randrange(10))
            if rng.random() < 0.05:
                s = ' ' + s
            if rng.random() < 0.05:
                s = '0' + s if not s.startswith('-') else s
            out.append(s)
        return out

    for tid, t in RC.NUMS.items():
        if RC.DAYF in t.flags:
            jobs.append(Job(tid, texts=RC.DAYNAMES + ['mon', 'Mo', '0', '1', '7', '-', ''], meta={'kind': 'list', 'tid': tid, 'vals': {}}))
            continue
        for dv in (['', '10', '-10'] if t.div == 1 and RC.FIX not in t.flags else ['']):
            div = RC.combine_divisor(t.div, int(dv) if dv else 0)
            jobs.append(Job(tid, dv, texts=numtexts(t, div), meta={'kind': 'num', 'tid': tid, 'dv': dv, 'wide_lossy': t.bits >= 24 and div != 1}))
    for tid, t in RC.DTS.items():
        texts = ['-.-.-', '-:-', '-:-:-', '-', '']
        for _ in range(n):
            if t.dkind in ('date', 'days'):
                y = rng.choice([rng.randrange(2000, 2100), rng.randrange(0, 100), rng.randrange(1900, 2080), 1900, 2079, 2100])
                texts.append('%s.%s.%s' % (rng.choice(['%d', '%02d']) % rng.randrange(0, 33), rng.choice(['%d', '%02d']) % rng.randrange(0, 14), y))
            elif t.dkind == 'minutes2009':
                texts.append('%02d.%02d.%d %02d:%02d' % (rng.randrange(1, 32), rng.randrange(1, 13), rng.choice([2008, 2009, 2024, 2099, 2100, rng.randrange(2009, 2100)]),
                                                        rng.randrange(0, 25), rng.randrange(0, 61)))
            else:
                parts = [rng.randrange(0, 26), rng.randrange(0, 62)] + ([rng.randrange(0, 62)] if t.nbytes == 3 else [])
                texts.append(':'.join(rng.choice(['%d', '%02d']) % p for p in parts))
        jobs.append(Job(tid, texts=texts, meta={'kind': 'dt', 'tid': tid}))
    for tid in ('STR', 'NTS', 'HEX'):
        for ln in (1, 2, 5, 10, 24):
            texts = []
            for _ in range(n // 5):
                if tid == 'HEX':
                    k = rng.randrange(0, ln + 2)
                    texts.append(rng.choice([' ', '']).join('%02x' % rng.randrange(256) for _ in range(k)))
                else:
                    texts.append(''.join(chr(rng.randrange(0x20, 0x7f)) for _ in range(rng.randrange(0, ln + 2))).replace(';', ','))
            jobs.append(Job('%s:%d' % (tid, ln), texts=texts, meta={'kind': 'str', 'tid': tid, 'len': ln}))
    for first, mx in RC.BIT_MAX.items():
        for nb in range(1, mx + 1):
            typ = 'BI7' if first == 7 else 'BI%d:%d' % (first, nb)
            jobs.append(Job(typ, texts=[str(v) for v in range(0, (1 << nb) + 2)] + ['-', '-1', '1.0'], meta={'kind': 'bits', 'first': first, 'n': nb, 'tid': typ}))
    jobs.append(Job('UCH', '0=off;1=on;5=five', texts=['off', 'on', 'five', '0', '1', '5', '2', 'OFF', '-', ''], meta={'kind': 'list', 'tid': 'UCH', 'vals': {}}))
    return jobs


def main():
    c = Check('C06')
    exe = build_harness('asan', 'codec_server', ['codec_server.cpp'])
    rng = random.Random(c.seed)
    jobs = [j for j in build_jobs(rng, c.thorough) if j.fmt == 0]
    tj = text_jobs(rng, c.thorough)
    tot = run_jobs(c, exe, jobs + tj, 'judge', 'c06')
    import neighbour
    nb = neighbour.run_neighbours(c, exe, True)
    tot['evaluations'] = tot.get('evaluations', 0) + nb.get('evaluations', 0)
    c.coverage.update({
        'two_field_sets': {'set_decodes_compared_with_the_fields_alone': int(nb.get('set_decodes', 0)), 'set_texts_encoded_back': int(nb.get('set_encodes', 0)),
                           'second_field_x_predecessor_pairs': int(nb.get('neighbour_pairs', 0))},
        'evaluations': int(tot.get('evaluations', 0)),
        'distinct_nontrivial': int(tot.get('nontrivial', 0)),
        'rule': 'same raw-pattern workload as C05 (exhaustive 1-/2-byte sweeps, all days 2000-2099, boundary+random wide patterns): '
                'each pattern that decodes to text t is encoded from t into an empty buffer and over the original bytes; plus %d '
                'user-style texts (signs, leading zeros/blanks, surplus fraction digits, exponents, hex, d.m.yy dates, short strings) '
                'for the encode-decode-encode fixed point. non-trivial = judged decodable non-zero non-null pattern, or accepted text'
                % sum(j.n() for j in tj),
        'exhaustive': True,
        'judged': int(tot.get('judged', 0)), 'unjudged_ambiguous': int(tot.get('unjudged', 0)),
        'null_roundtrips': int(tot.get('nulls', 0)), 'rejected_texts': int(tot.get('rejected_texts', 0)),
        'samples': tot.get('samples', []),
    })
    c.assumptions += ['ownership of bits for BIx/TTH/TTQ taken from the type table (first bit, bit count)',
                      'patterns whose decoding the reference does not judge (mixed nulls etc., see C05) are not judged here either',
                      '32-bit types with divisor != 1 beyond 2^24 are compared within relative 2^-21 (float32 arithmetic)']
    c.finish(floor_nontrivial=500000)


if __name__ == '__main__':
    guarded_main(main)
