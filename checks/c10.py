#!/usr/bin/env python3
"""C10: field layout and independence. Random sequences of field definitions (all kinds, bit fields sharing bytes, m/s
parts, a remainder field at the end) are built through DataField::create. Ownership of bits is discovered black-box by
encoding (one field varied at a time) and compared with an independent layout computation; then length agreement,
composition (set decode == single decodes), locality under foreign bit flips and write confinement are checked."""
import os, sys
sys.path.insert(0, os.path.dirname(os.path.abspath(__file__)))
from codec_jobs import *
import multiprocessing
import re

# (type, nbytes, [values that together toggle the bits the type can toggle])
FULL = [
    ('UCH', 1, ['0', '1', '85', '170', '254', '-']), ('SCH', 1, ['0', '-1', '85', '-86', '127']), ('D1C', 1, ['0.0', '42.5', '100.0', '21.0']),
    ('UIN', 2, ['0', '21845', '43690', '65534', '1', '-']), ('SIN', 2, ['0', '-1', '21845', '-21846']), ('UIR', 2, ['0', '21845', '43690', '65534']),
    ('D2C', 2, ['0.00', '1.00', '-1.00', '100.50']), ('D2B', 2, ['0.000', '1.500', '-1.500']), ('FLT', 2, ['0.000', '1.234', '-5.678']),
    ('U3N', 3, ['0', '5592405', '11184810', '16777214']), ('S3R', 3, ['0', '-1', '5592405']),
    ('ULG', 4, ['0', '1431655765', '2863311530', '4294967294']), ('SLR', 4, ['0', '-1', '1431655765']), ('EXP', 4, ['0.0', '1.5', '-2.25', '0.5']),
    ('BCD', 1, ['0', '99', '55', '12', '88', '-']), ('BCD:2', 2, ['0', '9999', '1234', '8877']), ('BCD:3', 3, ['0', '999999', '123456']),
    ('HCD:2', 2, ['0', '9999', '1234']), ('PIN', 2, ['1234', '9999', '5678']),
    ('BDA', 4, ['01.01.2000', '31.12.2099', '15.06.2055', '28.07.2038']), ('BDA:3', 3, ['01.01.2000', '31.12.2099', '15.06.2055', '-.-.-']),
    ('HDA:3', 3, ['01.01.2000', '31.12.2099', '15.06.2055']), ('BDZ', 4, ['01.01.2000', '31.12.2099', '14.06.2055']),
    ('DAY', 2, ['01.03.1900', '26.10.2014', '05.06.2079', '11.09.2031']), ('DTM', 4, ['01.01.2009 00:00', '31.12.2099 23:59', '16.12.2024 16:51']),
    ('BTI', 3, ['00:00:00', '23:59:59', '12:34:56']), ('HTI', 3, ['00:00:00', '23:59:59', '12:34:56']), ('VTI', 3, ['00:00:00', '23:59:59', '12:34:56']),
    ('BTM', 2, ['00:00', '23:59', '12:34']), ('HTM', 2, ['00:00', '23:59', '12:34', '-:-']), ('VTM', 2, ['00:00', '23:59', '12:34']),
    ('MIN', 2, ['00:00', '23:59', '12:34', '21:04']), ('TTM', 1, ['00:00', '23:50', '12:30', '15:20', '-:-']),
    ('BDY', 1, ['Mon', 'Sun', 'Wed']), ('HDY', 1, ['Mon', 'Sun', 'Wed']),
]
STRS = ['STR', 'NTS', 'HEX']
# partitions of one byte into bit fields: (type, first, nbits, values)
def bit_groups(rng):
    groups = []
    pos = 0
    segs = []
    while pos < 8:
        if rng.random() < 0.25 and pos < 7:
            pos += 1          # leave a gap bit
            continue
        n = rng.randrange(1, min(RC.BIT_MAX[pos], 8 - pos) + 1)
        typ = 'BI7' if pos == 7 else 'BI%d:%d' % (pos, n)
        segs.append((typ, pos, n, [str(v) for v in sorted({0, (1 << n) - 1, 1, (0x55 & ((1 << n) - 1))})]))
        pos += n
        if rng.random() < 0.3:
            break
    return segs


def gen_case(rng):
    """returns list of field dicts: name, part, type, nbytes, kind, values, first, nbits"""
    fields = []
    nf = rng.randrange(2, 9)
    while len(fields) < nf:
        part = rng.choice(['m', 's'])
        r = rng.random()
        if r < 0.3:
            segs = bit_groups(rng)
            if rng.random() < 0.2:
                tt = rng.choice([('TTH', 6, ['00:30', '23:30', '12:00', '24:00', '-:-']), ('TTQ', 7, ['00:15', '23:45', '12:30', '24:00', '-:-'])])
                segs = [(tt[0], 0, tt[1], tt[2])] + [s for s in bit_groups(rng) if s[1] >= tt[1]][:2]
                segs = [segs[0]] + ([('BI6:2', 6, 2, ['0', '1', '2', '3'])] if tt[0] == 'TTH' and rng.random() < 0.7 else
                                    [('BI7', 7, 1, ['0', '1'])] if tt[0] == 'TTQ' and rng.random() < 0.7 else [])
            prev = [f for f in fields if f['part'] == part]
            if prev and prev[-1]['kind'] == 'bits' and not (segs and segs[0][1] == prev[-1]['first'] and rng.random() < 0.5):
                # keep bit groups of one part apart (otherwise they would be overlapping definitions in one byte); with some
                # probability two bit fields starting at the same bit follow each other directly (forces a new byte)
                fields.append({'part': part, 'type': 'UCH', 'nbytes': 1, 'kind': 'full', 'values': ['0', '1', '85', '170', '254']})
            for typ, first, n, vals in segs:
                fields.append({'part': part, 'type': typ, 'nbytes': 1, 'kind': 'bits', 'first': first, 'nbits': n, 'values': vals})
        elif r < 0.42:
            ln = rng.randrange(1, 6)
            typ = rng.choice(STRS)
            if typ == 'HEX':
                vals = [' '.join('%02x' % rng.randrange(256) for _ in range(ln)) for _ in range(3)] + [' '.join(['00'] * ln), ' '.join(['ff'] * ln)]
            else:
                vals = ['A' * ln, 'z' * ln, ''.join(chr(rng.randrange(0x21, 0x7f)) for _ in range(ln)).replace(';', ':')]
            fields.append({'part': part, 'type': '%s:%d' % (typ, ln), 'nbytes': ln, 'kind': 'full', 'values': vals})
        elif r < 0.5:
            ln = rng.randrange(1, 4)
            fields.append({'part': part, 'type': 'IGN:%d' % ln, 'nbytes': ln, 'kind': 'ign', 'values': None})
        else:
            typ, nb, vals = rng.choice(FULL)
            fields.append({'part': part, 'type': typ, 'nbytes': nb, 'kind': 'full', 'values': vals})
    fields = fields[:10]
    # optional remainder field at the very end of one part
    if rng.random() < 0.25:
        part = rng.choice(['m', 's'])
        typ = rng.choice(['STR', 'HEX', 'NTS'])
        ln = rng.randrange(1, 5)
        vals = ([' '.join('%02x' % rng.randrange(256) for _ in range(ln)) for _ in range(3)] if typ == 'HEX'
                else ['B' * ln, 'y' * ln, 'Q7' * ln][:3])
        if typ != 'HEX':
            vals = [v[:ln] for v in vals]
        # must be the last field of its part
        fields = [f for f in fields] + [{'part': part, 'type': typ + ':*', 'nbytes': ln, 'kind': 'rem', 'values': vals}]
    for i, f in enumerate(fields):
        f['name'] = 'f%d' % i
    # total data per part must stay small enough for a message (<= 24 bytes)
    for p in 'ms':
        while sum(f['nbytes'] for f in fields if f['part'] == p) > 20:
            idx = max(i for i, f in enumerate(fields) if f['part'] == p and f['kind'] != 'rem')
            del fields[idx]
    return fields


def ref_layout(fields, part, discovered=None, datalen=None):
    """independent layout for one part: returns (list of (field, set of (byte, bit))), total bytes).
    Whole-byte fields follow each other without gaps.  A bit field either continues in the open bit byte (only if its
    bits are still free there) or starts a fresh byte -- "may share": which of the two is taken from the bits the field
    was observed to write (discovered[id(field)]), everything else is fixed by the definitions before it."""
    out = []
    off = 0           # next free byte
    cur = None        # (byte index, set of used bits) of an open bit byte
    for f in fields:
        if f['part'] != part:
            continue
        if f['kind'] == 'bits':
            first, n = f['first'], f['nbits']
            mine = set(range(first, first + n))
            share = cur is not None and not (mine & cur[1])
            if share and discovered is not None:
                d = discovered.get(id(f), set())
                if d and all(b == off for b, _ in d):
                    share = False       # observed in a fresh byte: allowed
            if share:
                b = cur[0]
                cur = (b, cur[1] | mine)
            else:
                b = off
                off += 1
                cur = (b, set(mine))
            out.append((f, {(b, i) for i in mine}))
        elif f['kind'] == 'rem' and datalen is not None:
            cur = None
            out.append((f, {(b, i) for b in range(off, max(datalen, off + 1)) for i in range(8)}))
            off = max(datalen, off + 1)
        else:
            cur = None
            out.append((f, {(b, i) for b in range(off, off + f['nbytes']) for i in range(8)}))
            off += f['nbytes']
    return out, off


def bits_of(h):
    b = bytes.fromhex(h)
    return {(i, j) for i in range(len(b)) for j in range(8) if b[i] >> j & 1}


def run_case(exe, fields, rng, stats):
    """runs all operations of one case in one server invocation; returns list of violations"""
    viol = []
    rows = [{'name': f['name'], 'part': f['part'], 'type': f['type']} for f in fields]
    lines = [dline('set', rows)]
    ops = []      # (tag, info)
    per_part = {}
    for p in 'ms':
        pf = [f for f in fields if f['part'] == p]
        if not pf:
            continue
        active = [f for f in pf if f['kind'] != 'ign']
        for f in active:
            f['values'] = list(f['values'])
            rng.shuffle(f['values'])
        base = [f['values'][0] for f in active]
        per_part[p] = (pf, active, base)
        lines.append('W\tset\t%s\t-\t%s' % (p, esc(';'.join(base))))
        ops.append(('base', p))
        for i, f in enumerate(active):
            for v in f['values'][1:]:
                toks = list(base)
                toks[i] = v
                lines.append('W\tset\t%s\t-\t%s' % (p, esc(';'.join(toks))))
                ops.append(('vary', p, i, v))
    # single-field definitions for composition
    for i, f in enumerate(fields):
        lines.append(dline('one%d' % i, [{'name': f['name'], 'part': f['part'], 'type': f['type']}]))
        ops.append(('def1', i))
    rc, out, err = __import__('codec_common')._run_server(exe, lines)
    outl = [l.split('\t') for l in out.split('\n') if l]
    if rc != 0 or len(outl) != len(ops) + 1:
        return [('harness', 'server rc=%s lines=%d/%d %s' % (rc, len(outl), len(ops) + 1, err[-2000:]))], rc, err
    d = outl[0]
    desc = ' '.join('%s:%s' % (f['part'], f['type']) for f in fields)
    if d[2] != '0':
        stats['rejected_defs'] = stats.get('rejected_defs', 0) + 1
        return [], 0, ''
    lenM, lenS = int(d[3]), int(d[4])
    res = dict()
    encoded = {}
    for op, o in zip(ops, outl[1:]):
        if op[0] == 'base':
            encoded[op[1]] = {'base': o, 'vary': []}
        elif op[0] == 'vary':
            encoded[op[1]]['vary'].append((op[2], op[3], o))
    stats['evaluations'] += 1
    nontriv = sum(1 for f in fields if f['kind'] in ('bits', 'rem')) >= 1 and len(fields) >= 2
    second = []
    plan = []
    layouts = {}
    for p, (pf, active, base) in per_part.items():
        b = encoded[p]['base']
        if int(b[1]) != 0:
            viol.append(('encode-baseline-fails', '%s part %s values %r -> code %s' % (desc, p, base, b[1])))
            continue
        bh, used = b[2], int(b[3])
        nbytes = len(bh) // 2
        has_rem = any(f['kind'] == 'rem' for f in pf)
        owned = {}
        bad = False
        for i, v, o in encoded[p]['vary']:
            if int(o[1]) != 0:
                viol.append(('encode-vary-fails', '%s part %s field %s value %r -> code %s' % (desc, p, active[i]['type'], v, o[1])))
                bad = True
                continue
            if len(o[2]) != len(bh) and active[i]['kind'] != 'rem':
                viol.append(('length-depends-on-value', '%s part %s field %s value %r: %s vs %s' % (desc, p, active[i]['type'], v, o[2], bh)))
                bad = True
                continue
            diff = bytes(x ^ y for x, y in zip(bytes.fromhex(o[2]), bytes.fromhex(bh)))
            owned.setdefault(id(active[i]), set()).update(bits_of(diff.hex()))
        if bad:
            continue
        layout, total = ref_layout(fields, p, owned, nbytes if has_rem else None)
        glen = lenM if p == 'm' else lenS
        # (ii) three length notions
        if not has_rem:
            if not (glen == total == used == nbytes):
                viol.append(('length-disagree', '%s part %s: getLength=%d reference=%d usedLength=%d bytes written=%d' % (desc, p, glen, total, used, nbytes)))
                continue
        elif not (used == nbytes == total):
            viol.append(('length-disagree', '%s part %s (remainder): reference=%d usedLength=%d bytes written=%d' % (desc, p, total, used, nbytes)))
            continue
        # (i) ownership discovered by encoding must lie inside the field's own bits
        lay = {id(f): s for f, s in layout}
        layouts[p] = layout
        for i, f in enumerate(active):
            disc = owned.get(id(f), set())
            if not disc <= lay[id(f)]:
                viol.append(('writes-outside-own-bits', '%s part %s field #%d %s: varying it changed bits %s, owns %s' % (
                    desc, p, i, f['type'], sorted(disc - lay[id(f)])[:8], _span(lay[id(f)]))))
        # prepare second batch: decode composition / locality / prefilled write
        data = bytes.fromhex(bh)
        for fmt in (0, OF_NAMES):
            second.append('R\tset\t%d\t%s\t%s' % (fmt, p, bh))
            plan.append(('setread', p, fmt, bh))
        for f, s in layout:
            if f['kind'] == 'ign':
                continue
            idx = fields.index(f)
            bytes_of = sorted({b_ for b_, _ in s})
            own = bytes(data[b_] for b_ in bytes_of)
            for fmt in (0, OF_JSON | OF_SHORT):
                second.append('R\tset\t%d\t%s\t%s\t%s' % (fmt, p, bh, f['name']))
                plan.append(('pick', p, idx, fmt, bh))
                second.append('R\tone%d\t%d\t%s\t%s' % (idx, fmt, p, own.hex()))
                plan.append(('alone', p, idx, fmt, own.hex()))
            # (iv) flip foreign bits
            foreign = [(b_, i_) for b_ in range(nbytes) for i_ in range(8) if (b_, i_) not in s]
            rng.shuffle(foreign)
            for b_, i_ in foreign[:6]:
                fl = bytearray(data)
                fl[b_] ^= 1 << i_
                second.append('R\tset\t0\t%s\t%s\t%s' % (p, bytes(fl).hex(), f['name']))
                plan.append(('flip', p, idx, (b_, i_), bh))
        # (ii) minimal accepted size for read: one byte less must fail
        if nbytes > 0 and not has_rem:
            second.append('R\tset\t0\t%s\t%s' % (p, bh[:-2]))
            plan.append(('short', p))
        # (v) write into prefilled random buffer
        pre = bytes(rng.randrange(256) for _ in range(nbytes))
        second.append('W\tset\t%s\t%s\t%s' % (p, pre.hex(), esc(';'.join(base))))
        plan.append(('prefill', p, pre.hex(), bh))
    if not second:
        return viol, 0, ''
    lines2 = [lines[0]] + [l for l, o in zip(lines[1:], ops) if o[0] == 'def1'] + second
    rc, out, err = __import__('codec_common')._run_server(exe, lines2)
    outl = [l.split('\t') for l in out.split('\n') if l]
    ndef = 1 + sum(1 for o in ops if o[0] == 'def1')
    if rc != 0 or len(outl) != ndef + len(second):
        return viol + [('harness', 'second batch rc=%s lines=%d/%d' % (rc, len(outl), ndef + len(second)))], rc, err
    last_pick = {}
    setread = {}
    for pl, o in zip(plan, outl[ndef:]):
        kind = pl[0]
        if kind == 'setread':
            setread[(pl[1], pl[2])] = o
            if int(o[1]) < 0 or (int(o[1]) != 0 and per_part[pl[1]][1]):
                viol.append(('set-decode-fails', '%s part %s data %s fmt %d -> code %s' % (desc, pl[1], pl[3], pl[2], o[1])))
        elif kind == 'pick':
            last_pick[(pl[1], pl[2], pl[3])] = o
        elif kind == 'alone':
            pk = last_pick.get((pl[1], pl[2], pl[3]))
            f = fields[pl[2]]
            if pk is None:
                continue
            stats['compositions'] = stats.get('compositions', 0) + 1
            a_code, a_text = int(o[1]), re.sub(r'^"\d+":', '', o[2] if len(o) > 2 else '')
            p_code, p_text = int(pk[1]), re.sub(r'^"\d+":', '', pk[2] if len(pk) > 2 else '')
            if a_code != p_code or a_text != p_text:
                viol.append(('composition-differs', '%s: field %s (%s) decoded inside the set -> %s %r, alone from its own bytes %s -> %s %r' % (
                    desc, f['name'], f['type'], p_code, p_text, pl[4], a_code, a_text)))
        elif kind == 'flip':
            f = fields[pl[2]]
            stats['flips'] = stats.get('flips', 0) + 1
            ref = last_pick.get((pl[1], pl[2], 0))
            if ref is not None and (o[1] != ref[1] or (o[2] if len(o) > 2 else '') != (ref[2] if len(ref) > 2 else '')):
                viol.append(('foreign-bit-changes-value:%s' % f['type'].split(':')[0], '%s data %s: flipping foreign bit %s changes field %s (%s) from %r to %r (code %s)' % (
                    desc, pl[4], pl[3], f['name'], f['type'], ref[2] if len(ref) > 2 else '', o[2] if len(o) > 2 else '', o[1])))
        elif kind == 'short':
            if int(o[1]) >= 0:
                viol.append(('short-data-accepted', '%s part %s: data one byte shorter than the layout decodes with code %s' % (desc, pl[1], o[1])))
        elif kind == 'prefill':
            p = pl[1]
            pre, bh = bytes.fromhex(pl[2]), bytes.fromhex(pl[3])
            if int(o[1]) != 0:
                viol.append(('prefill-write-fails', '%s part %s -> %s' % (desc, p, o[1])))
                continue
            got = bytes.fromhex(o[2])
            layout = layouts[p]
            bitbytes = {b_ for f, s in layout if f['kind'] == 'bits' for b_, _ in s}
            # TTH/TTQ are written by assignment (they come first in their byte), later bit fields OR into the byte
            bitbytes -= {b_ for f, s in layout if f['kind'] == 'bits' and f['type'].startswith('TT') for b_, _ in s}
            for b_ in range(len(bh)):
                want = (pre[b_] | bh[b_]) if b_ in bitbytes else bh[b_]
                if b_ >= len(got) or got[b_] != want:
                    viol.append(('prefilled-write', '%s part %s: prefill %s + values -> %s, expected byte %d = %02x (empty-buffer encoding %s)' % (
                        desc, p, pl[2], o[2], b_, want, pl[3])))
                    break
    # (iii) set decode == join of single decodes, text format
    for p, (pf, active, base) in per_part.items():
        sr = setread.get((p, 0))
        if sr is None or int(sr[1]) != 0:
            continue
        parts = []
        ok = True
        for f in active:
            pk = last_pick.get((p, fields.index(f), 0))
            if pk is None or int(pk[1]) != 0:
                ok = False
                break
            parts.append(pk[2] if len(pk) > 2 else '')
        if ok and ';'.join(parts) != (sr[2] if len(sr) > 2 else ''):
            viol.append(('set-decode-not-join', '%s part %s: set decodes to %r, fields one by one %r' % (desc, p, sr[2] if len(sr) > 2 else '', parts)))
    if nontriv:
        stats['nontrivial'] += 1
    return viol, 0, ''


def _span(s):
    return sorted(s)[:1] + sorted(s)[-1:]


def shard(args):
    exe, seed, n = args
    rng = random.Random(seed)
    stats = {'evaluations': 0, 'nontrivial': 0, 'samples': []}
    viol = []
    seen = set()
    san = None
    for _ in range(n):
        fields = gen_case(rng)
        key = tuple((f['part'], f['type']) for f in fields)
        v, rc, err = run_case(exe, fields, rng, stats)
        if key in seen and stats['nontrivial'] > 0 and not v:
            pass
        seen.add(key)
        viol.extend(v)
        if rc != 0:
            san = (rc, err)
        if len(stats['samples']) < 2:
            stats['samples'].append(' '.join('%s:%s' % k for k in key))
    stats['distinct'] = len(seen)
    return stats, viol[:100], san


def main():
    c = Check('C10')
    exe = build_harness('asan', 'codec_server', ['codec_server.cpp'])
    nsh = 32
    per = 2500 if c.thorough else 100
    tot = {}
    with multiprocessing.Pool(NCPU) as pool:
        for stats, viol, san in pool.imap_unordered(shard, [(exe, c.seed * 1000 + i, per) for i in range(nsh)]):
            for k, v in stats.items():
                if isinstance(v, list):
                    tot.setdefault(k, [])
                    if len(tot[k]) < 6:
                        tot[k].extend(v[:1])
                else:
                    tot[k] = tot.get(k, 0) + v
            for key, detail in viol:
                if key == 'harness':
                    c.inconclusive.append(detail[:300])
                else:
                    c.violation(key, detail)
            if san:
                for key, summ in classify_sanitizer(san[1])[:3]:
                    c.violation(key, summ, san[1])
    import neighbour
    nb = neighbour.run_neighbours(c, exe, True)
    tot['evaluations'] = tot.get('evaluations', 0) + nb.get('evaluations', 0)
    c.coverage.update({
        'two_field_sets': {'set_decodes_compared_with_the_fields_alone': int(nb.get('set_decodes', 0)), 'set_texts_encoded_back': int(nb.get('set_encodes', 0)),
                           'second_field_x_predecessor_pairs': int(nb.get('neighbour_pairs', 0))},
        'evaluations': int(tot.get('evaluations', 0)),
        'distinct_nontrivial': min(int(tot.get('nontrivial', 0)), int(tot.get('distinct', 0))),
        'rule': 'random sequences of 2..11 field definitions over all base types (numeric, BCD/HCD/PIN, dates, times, STR/NTS/HEX/IGN with '
                'lengths, bit fields partitioning a byte incl. TTH/TTQ + BIx, optional :* remainder field), split over m and s part; per '
                'sequence: baseline encode, one-field-at-a-time variation (ownership), decode of the set vs each field alone, 6 foreign '
                'bit flips per field, truncated data, write into random prefill. non-trivial = sequence with a bit field or remainder field',
        'compositions_checked': int(tot.get('compositions', 0)), 'foreign_bit_flips': int(tot.get('flips', 0)),
        'rejected_definitions': int(tot.get('rejected_defs', 0)),
        'samples': tot.get('samples', []),
    })
    c.assumptions += ['reference layout: full-byte fields follow each other; a bit field shares the byte of the previous bit field unless that '
                      'reached bit 7 or both start at the same bit; overlapping bit definitions are not generated',
                      'bit fields OR into an existing byte (documented contract), whole-byte fields overwrite']
    c.finish(floor_nontrivial=300)


if __name__ == '__main__':
    guarded_main(main)
