#!/usr/bin/env python3
"""C19: configuration round trip. (a) FileReader::splitFields against a reference CSV writer over an adversarial
alphabet, and dumpString -> splitFields; (b) generated definition sets in the default column set are loaded, dumped,
reloaded and dumped again: both generations must agree attribute by attribute and the dump must be idempotent."""
import os, sys, random, itertools
sys.path.insert(0, os.path.dirname(os.path.abspath(__file__)))
from msg_common import *

ALPHA = ['a', ',', '"', ';', "'", ' ']


def ref_write_field(f, force=False):
    if force or ',' in f or '"' in f or f != f.strip(' \t') or f.startswith('#') or f.startswith('//') or f == '':
        if f == '' and not force:
            return ''
        return '"' + f.replace('"', '""') + '"'
    return f


def ref_write(fields):
    return ','.join(ref_write_field(f, force=(i == 0 and (f.startswith('#') or f.startswith('/') or f.startswith('*')))) for i, f in enumerate(fields))


def rtrim(f):
    # FileReader::trim leaves a string consisting of blanks only untouched
    return f.strip(' \t') if f.strip(' \t') else f


def expected_split(fields):
    e = [rtrim(f) for f in fields]
    if all(x == '' for x in e):
        return []
    return e


def split_shard(args):
    exe, seed, mode, nrand = args
    rng = random.Random(seed)
    stats = {'evaluations': 0, 'nontrivial': 0, 'samples': []}
    viol = []
    cases = []
    if mode == 'exh':
        vals = [''.join(p) for n in range(0, 3) for p in itertools.product(ALPHA, repeat=n)]
        # shard the exhaustive triples over seed
        nsh = 8
        for i, a in enumerate(vals):
            if i % nsh != seed % nsh:
                continue
            for b in vals:
                cases.append([a, b])
                for c in vals[::3]:
                    cases.append([a, b, c])
        for a in [''.join(p) for n in (3, 4) for p in itertools.product(ALPHA, repeat=n)][seed % nsh::nsh]:
            cases.append([a])
            cases.append(['x', a, 'y'])
    else:
        for _ in range(nrand):
            nf = rng.randrange(1, 8)
            cases.append([''.join(rng.choice(ALPHA + ['b', 'c', '=', '#', '/', '*', '\t', 'é']) for _ in range(rng.randrange(0, 12))) for _ in range(nf)])
    lines = []
    for fields in cases:
        lines.append('SPLIT\t' + esc(ref_write(fields) + '\n'))
    dump_cases = []
    if mode != 'exh':
        for _ in range(nrand):
            s = ''.join(rng.choice(ALPHA + ['b', '=']) for _ in range(rng.randrange(0, 9)))
            dump_cases.append(s)
    else:
        dump_cases = [''.join(p) for n in range(0, 5) for p in itertools.product(ALPHA, repeat=n)][seed % 8::8]
    for s in dump_cases:
        lines.append('DUMPSTR\t' + esc(s))
    rc, outl, err = run_server(exe, lines)
    if rc != 0 or len(outl) != len(lines):
        return stats, [('harness', 'split shard rc=%s lines=%d/%d' % (rc, len(outl), len(lines)))] if rc == 0 else [], (rc, err) if rc else None
    second = []
    for fields, o in zip(cases, outl):
        stats['evaluations'] += 1
        rows = unesc(o[2]).split('\x1e') if int(o[1]) > 0 and len(o) > 2 else []
        got = rows[0].split('\x1f') if rows else []
        if int(o[1]) > 0 and (len(o) < 3 or o[2] == ''):
            got = [] if int(o[1]) == 1 else got
        exp = expected_split(fields)
        if rows == [''] or (int(o[1]) == 1 and len(o) > 2 and unesc(o[2]) == ''):
            got = []
        if any(ch in f for f in fields for ch in ',"') or any(f != f.strip() for f in fields):
            stats['nontrivial'] += 1
        if got != exp or int(o[1]) > 1:
            viol.append(('split-fields', 'fields %r written as %r are read back as %r (%s rows)' % (fields, ref_write(fields), got, o[1])))
        elif len(stats['samples']) < 2 and stats['evaluations'] % 997 == 3:
            stats['samples'].append({'fields': fields, 'line': ref_write(fields)})
    for s, o in zip(dump_cases, outl[len(cases):]):
        second.append((s, unesc(o[1]) if len(o) > 1 else ''))
    lines2 = ['SPLIT\t' + esc('x,' + d + ',y\nNEXT,LINE\n') for s, d in second]
    rc, outl2, err = run_server(exe, lines2)
    if rc != 0 or len(outl2) != len(lines2):
        return stats, viol + ([('harness', 'dumpstr shard rc=%s' % rc)] if rc == 0 else []), (rc, err) if rc else None
    for (s, d), o in zip(second, outl2):
        stats['evaluations'] += 1
        rows = unesc(o[2]).split('\x1e') if len(o) > 2 else []
        got = [r.split('\x1f') for r in rows]
        exp = [['x', rtrim(s), 'y'], ['NEXT', 'LINE']]
        if ',' in s or '"' in s:
            stats['nontrivial'] += 1
        if got != exp:
            viol.append(('dumpstring-roundtrip', 'text %r is dumped as %r; the line x,%s,y followed by NEXT,LINE is read back as %r' % (s, d, d, got)))
    return stats, viol[:60], None


# ---- definition sets ----------------------------------------------------------------------------------------
TYPES1 = ['UCH', 'SCH', 'D1C', 'BCD', 'UIN', 'SIN', 'D2B', 'D2C', 'FLT', 'ULG', 'SLG', 'EXP', 'U3N', 'PIN', 'BDA', 'BDA:3', 'HDA', 'HDA:3', 'DAY', 'DTM',
          'BTI', 'HTI', 'VTI', 'BTM', 'HTM', 'VTM', 'MIN', 'TTM', 'TTH', 'TTQ', 'BDY', 'HDY', 'HCD', 'HCD:2', 'BCD:3', 'U1L', 'S2L', 'TEM_P']
TEXTCH = list('abcXYZ 09°%/-_.') + [',', ';', "'", '"', '=', '#', '*', ':']


def rtext(rng, maxlen=10):
    s = ''.join(rng.choice(TEXTCH) for _ in range(rng.randrange(0, maxlen)))
    return s.strip()


def gen_field(rng, idx, templates):
    name = rng.choice(['', 'f%d' % idx, 'temp', 'x_%d' % idx])
    part = rng.choice(['', '', 'm', 's'])
    r = rng.random()
    dv = ''
    if r < 0.12:
        typ = '%s:%d' % (rng.choice(['STR', 'NTS', 'HEX', 'IGN']), rng.randrange(1, 7))
        if rng.random() < 0.2 and not typ.startswith('IGN'):
            if typ.startswith('HEX'):
                n = int(typ.split(':')[1])
                dv = rng.choice(['=', '==']) + ' '.join('%02x' % rng.randrange(256) for _ in range(n))
            else:
                dv = rng.choice(['=', '==']) + 'ab'[:int(typ.split(':')[1])]
    elif r < 0.22:
        first = rng.randrange(8)
        n = rng.randrange(1, RC_BITMAX[first] + 1)
        typ = 'BI7' if first == 7 else 'BI%d:%d' % (first, n)
        if rng.random() < 0.3:
            dv = ';'.join('%d=%s' % (v, rng.choice(['off', 'on', 'auto', 'x y'])) for v in range(min(1 << n, 3)))
    elif r < 0.3 and templates:
        typ = rng.choice(templates)
        if rng.random() < 0.3 and len(templates) > 1:
            typ = typ + ';' + rng.choice(templates)
            name = ''
    else:
        typ = rng.choice(TYPES1)
        k = rng.random()
        base_int = typ in ('UCH', 'SCH', 'UIN', 'SIN', 'ULG', 'SLG', 'U3N', 'U1L', 'S2L', 'BCD', 'BCD:3', 'HCD:2')
        if base_int and k < 0.25:
            dv = rng.choice(['10', '100', '-10', '2', '-2', '1000'])
        elif base_int and k < 0.45:
            dv = ';'.join('%d=%s' % (v, rng.choice(['off', 'on', 'auto', 'x y', 'A-1', 'né'])) for v in sorted(rng.sample(range(0, 100), rng.randrange(1, 5))))
        elif typ in ('UCH', 'UIN') and k < 0.55:
            dv = rng.choice(['=', '==']) + str(rng.randrange(0, 200))
        elif typ in ('D2C', 'D1C', 'FLT') and k < 0.2:
            dv = rng.choice(['10', '2'])
    unit = rtext(rng, 6) if rng.random() < 0.4 else ''
    comment = rtext(rng, 14) if rng.random() < 0.5 else ''
    return [name, part, typ, dv, unit, comment]


RC_BITMAX = {0: 7, 1: 7, 2: 6, 3: 5, 4: 4, 5: 3, 6: 2, 7: 1}


def gen_set(rng):
    templates = []
    tlines = []
    for i in range(rng.randrange(0, 4)):
        tn = 'tp%d' % i
        typ = rng.choice(['UCH', 'D2C', 'UIN', 'BCD', 'HTM'])
        dv = rng.choice(['', '', '10', '0=off;1=on']) if typ in ('UCH', 'UIN') else ''
        tlines.append('%s,%s,%s,%s,%s' % (tn, typ, dv, ref_write_field(rtext(rng, 4)), ref_write_field(rtext(rng, 8))))
        templates.append(tn)
    msgs = []
    used = set()
    for i in range(rng.randrange(1, 26)):
        typ = rng.choice(['r', 'r', 'r%d' % rng.randrange(1, 10), 'w', 'u', 'uw'])
        circuit = rng.choice(['c0', 'c1', 'Heat', 'hc.2'])
        name = 'msg%d' % i
        qq = '%02x' % rng.choice(MASTERS[:8]) if rng.random() < 0.2 else ''
        zk = rng.random()
        zz = '' if zk < 0.12 else 'fe' if zk < 0.22 else '%02x' % rng.choice(MASTERS[:6]) if zk < 0.32 else '%02x' % rng.choice([0x08, 0x15, 0x25, 0x52])
        if zk >= 0.92 and typ[0] in 'rw':
            zz = '08;15'
        pbsb = rng.choice(['b509', 'b505', 'b511', '0700', '0503'])
        idb = bytes(rng.randrange(256) for _ in range(rng.randrange(0, 5)))
        ids = idb.hex()
        nfields = rng.randrange(0, 5)
        chain = False
        implicit_last = False
        if typ[0] in 'rw' and len(idb) >= 1 and rng.random() < 0.12:
            other = idb[:-1] + bytes([idb[-1] ^ 0x55])
            ln = rng.choice([None, 2, 4])
            ids = '%s%s;%s%s' % (idb.hex(), ':%d' % ln if ln else '', other.hex(), ':%d' % ln if ln else '')
            if rng.random() < 0.4:
                # three parts with independent explicit lengths (incl. the loader's default 16 after another length)
                third = idb[:-1] + bytes([idb[-1] ^ 0x2a])
                lens3 = [rng.choice([2, 4, 9, 16]) for _ in range(3)]
                ids = ';'.join('%s:%d' % (i.hex(), l) for i, l in zip((idb, other, third), lens3))
            chain = True
        key = (typ[0] + ('w' if typ.endswith('w') and typ[0] == 'u' else ''), zz, pbsb, ids, qq)
        if key in used:
            continue
        used.add(key)
        fields = [gen_field(rng, k, templates) for k in range(nfields)]
        if chain and rng.random() < 0.5:
            # explicit length for the first part, the last part takes the rest: one payload field longer than the explicit part
            ln1 = rng.choice([2, 4, 8])
            ids = '%s:%d;%s' % (idb.hex(), ln1, other.hex())
            fields = [['pl', '', '%s:%d' % (rng.choice(['HEX', 'STR']), ln1 + rng.randrange(1, 17)), '', '', '']]
            nfields = 1
            implicit_last = True
        comment = rtext(rng, 16) if rng.random() < 0.5 else ''
        cols = [typ, circuit, name, comment, qq, zz, pbsb, ids]
        for f in fields:
            cols += f
        msgs.append({'line': ','.join(ref_write_field(c) for c in cols), 'type': typ, 'circuit': circuit, 'name': name, 'qq': qq, 'zz': zz,
                     'pbsb': pbsb, 'ids': ids, 'comment': comment, 'chain': chain, 'nfields': nfields, 'implicit_last': implicit_last})
    return tlines, msgs


def defs_shard(args):
    exe, seed, nsets = args
    rng = random.Random(seed)
    stats = {'evaluations': 0, 'nontrivial': 0, 'messages_roundtripped': 0, 'lines_rejected': 0, 'samples': []}
    viol = []
    for si in range(nsets):
        tlines, msgs = gen_set(rng)
        lines = ['TEMPL\t' + esc('\n' + '\n'.join(tlines) + '\n'), 'NEW\tg1\t0']
        for m in msgs:
            lines.append('LOAD\tg1\t' + esc('\n' + m['line'] + '\n'))
        lines += ['DUMP\tg1', 'LIST\tg1']
        rc, outl, err = run_server(exe, lines)
        if rc != 0:
            return stats, viol, (rc, err)
        loads = outl[2:2 + len(msgs)]
        accepted = [m for m, o in zip(msgs, loads) if o[1] == '0']
        stats['lines_rejected'] += len(msgs) - len(accepted)
        rest = outl[2 + len(msgs):]
        dump1 = unesc(rest[0][1]) if len(rest[0]) > 1 else ''
        n1 = int(rest[1][1])
        list1 = [tuple(x[1:]) for x in rest[2:2 + n1]]
        stats['evaluations'] += 1
        # ground truth of generation 1: every accepted line is present with its direction/addresses/ids/priority/comment
        byname = {}
        for l in list1:
            p = unesc(l[0]).split('|')
            byname.setdefault((p[0].split('.')[0] if False else p[0], p[1]), []).append((p, l))
        for m in accepted:
            cands = [v for (c, n), v in byname.items() if n == m['name'] and (c == m['circuit'] or c.startswith(m['circuit'] + '.'))]
            if not cands:
                viol.append(('gen1-missing', 'accepted line %r not found in the loaded map' % m['line']))
                continue
            p, l = cands[0][0]
            want_dir = m['type'][0] if m['type'][0] in 'rw' else ('uw' if m['type'].lower().startswith('uw') else 'u')
            prio = int(m['type'][1]) if m['type'][0] == 'r' and len(m['type']) > 1 else 0
            zzs = m['zz'].split(';')
            if p[2] != want_dir or p[3] != m['qq'] or p[4] not in zzs + ([''] if m['zz'] == '' else []) or int(l[1]) != prio \
                    or unesc(l[6]) != m['comment'].strip():
                viol.append(('gen1-attributes', 'line %r loaded as %s prio=%s comment=%r' % (m['line'], '|'.join(p), l[1], unesc(l[6]))))
        # generation 2 from the dump
        lines2 = ['TEMPL\t' + esc('\n'), 'NEW\tg2\t0', 'LOAD\tg2\t' + esc(dump1), 'DUMP\tg2', 'LIST\tg2']
        rc, outl2, err = run_server(exe, lines2)
        if rc != 0:
            return stats, viol, (rc, err)
        lo = outl2[2]
        desc = 'set #%d (seed %d): %d messages' % (si, seed, len(accepted))
        import re
        sfx = ''      # (a dumpString defect with adjacent quotes used to be tagged here; it is repaired, see known_findings.json 'fixed')
        if lo[1] != '0':
            # known defect: a chain whose last part had no explicit length is dumped with the length of the part before it,
            # which then limits the payload on reload (see known_findings.json); recognised by the failing dump line
            if not sfx and len(lo) > 3 and ':' in unesc(lo[3]):
                try:
                    bad = dump1.split('\n')[int(unesc(lo[3]).split(':')[1]) - 1]
                    cols = bad.split(',')
                    src = [m for m in accepted if m['name'] == cols[2] and (cols[1] == m['circuit'] or cols[1].startswith(m['circuit'] + '.'))]
                    if src and src[0].get('implicit_last') and ('argument value out of valid range, field type' in unesc(lo[3]) or 'invalid position, data length' in unesc(lo[3])):
                        sfx = ':chain-implicit-last-length'
                except (ValueError, IndexError):
                    pass
            viol.append(('dump-does-not-reload' + sfx, '%s: loading the dump fails with %s %s; dump:\n%s' % (desc, lo[1], unesc(lo[3]) if len(lo) > 3 else '', '\n'.join(dump1.split('\n')[int(unesc(lo[3]).split(':')[1]) - 1:][:1]) if len(lo) > 3 and ':' in lo[3] else dump1[:600])))
            continue
        dump2 = unesc(outl2[3][1]) if len(outl2[3]) > 1 else ''
        n2 = int(outl2[4][1])
        list2 = [tuple(x[1:]) for x in outl2[5:5 + n2]]
        stats['messages_roundtripped'] += n1
        if any(c in dump1 for c in '";') and n1 >= 2:
            stats['nontrivial'] += 1
        if sorted(list1) != sorted(list2):
            d1 = [x for x in list1 if x not in list2][:2]
            d2 = [x for x in list2 if x not in list1][:2]
            viol.append(('generations-differ' + sfx, '%s: after dump and reload %d message(s) differ, e.g. before %r after %r' % (
                desc, len([x for x in list1 if x not in list2]), [tuple(unesc(y) for y in x) for x in d1], [tuple(unesc(y) for y in x) for x in d2])))
        elif dump1 != dump2:
            viol.append(('dump-not-idempotent' + sfx, '%s: second dump differs textually' % desc))
        if len(stats['samples']) < 1 and accepted:
            stats['samples'].append({'definition_lines': [m['line'] for m in accepted[:3]], 'dump_line': dump1.split('\n')[1] if '\n' in dump1 else ''})
    return stats, viol[:40], None


def main():
    c = Check('C19')
    exe = build_msg_server()
    args = [(exe, c.seed * 1000 + i, 'exh', 0) for i in range(8)]
    args += [(exe, c.seed * 1000 + 100 + i, 'rnd', 40000 if c.thorough else 4000) for i in range(8)]
    tot = pool_run(c, split_shard, args)
    nsets = 3000 if c.thorough else 40
    tot2 = pool_run(c, defs_shard, [(exe, c.seed * 1000 + 500 + i, nsets) for i in range(24)])
    c.coverage.update({
        'evaluations': int(tot.get('evaluations', 0)) + int(tot2.get('evaluations', 0)),
        'distinct_nontrivial': int(tot.get('nontrivial', 0)) + int(tot2.get('nontrivial', 0)),
        'rule': '(a) exhaustive: all pairs (and a third of the triples) of fields of length<=2 over {a , " ; \' blank}, all single fields of '
                'length 3..4, plus random rows up to 7 fields x 11 chars, written by a reference CSV writer and split by the real '
                'FileReader::splitFields; all texts up to length 4 through dumpString and back. (b) definition sets of 1..25 messages '
                '(r, r1-r9, w, u, uw; QQ; ZZ none/slave/master/broadcast/multi; ID 0..4 bytes; chains with/without lengths; 0..4 fields of all base '
                'types, lengths, divisors, value lists, constants =v/==v, templates, multi-templates; units/comments with separators and quotes): '
                'load, dump, reload, dump. non-trivial = row with a separator/quote/blank-padded field, or a set whose dump contains quotes or ;',
        'split_cases': int(tot.get('evaluations', 0)), 'definition_sets': int(tot2.get('evaluations', 0)),
        'messages_roundtripped': int(tot2.get('messages_roundtripped', 0)), 'definition_lines_rejected_by_loader': int(tot2.get('lines_rejected', 0)),
        'samples': tot.get('samples', [])[:2] + tot2.get('samples', [])[:2],
    })
    c.assumptions += ['fields are trimmed of blanks/tabs by the reader, quoted or not (documented behaviour); an all-empty row is dropped',
                      'the reference writer quotes a field iff it contains , or " or has leading/trailing blanks and doubles quotes inside']
    c.finish(floor_nontrivial=1000)


if __name__ == '__main__':
    guarded_main(main)
