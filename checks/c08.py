#!/usr/bin/env python3
"""C08: a telegram is matched to the right message definition. Generated definition sets (colliding PBSB, shared
prefixes, equal XOR folds beyond 4 ID bytes, source/destination wildcards, chains) are loaded through the real CSV
loader in several insertion orders; MessageMap::find(master, flags) is compared with a linear-scan reference."""
import os, sys, random
sys.path.insert(0, os.path.dirname(os.path.abspath(__file__)))
from msg_common import *

PBSB = ['b509', 'b505', 'b511', '0700', 'fe01']
SLAVES = [0x08, 0x15, 0x25, 0x52, 0x75]


def gen_defs(rng, n):
    defs = []
    idpool = []
    for i in range(n):
        typ = rng.choice(['r', 'r', 'w', 'u', 'uw'])
        r = rng.random()
        # ids: share prefixes and create equal XOR folds beyond 4 bytes
        if idpool and r < 0.35:
            base = rng.choice(idpool)
            k = rng.randrange(0, len(base) + 1)
            idb = base[:k] + bytes(rng.randrange(256) for _ in range(rng.randrange(0, 3)))
        elif idpool and r < 0.5:
            base = rng.choice(idpool)
            if len(base) >= 1:
                # same fold: append 4 bytes b and later again the same 4 bytes cancels; or swap positions i and i+4
                idb = bytes(base[:4]) + bytes(rng.randrange(256) for _ in range(rng.randrange(0, 4)))
                if len(idb) >= 5:
                    l = list(idb)
                    x = rng.randrange(1, 256)
                    l[0] ^= x
                    l[4] ^= x          # position 0 and 4 fold onto the same key byte
                    idb = bytes(l)
            else:
                idb = b''
        else:
            idb = bytes(rng.choice([0x00, 0x01, 0x0d, 0x28, rng.randrange(256)]) for _ in range(rng.randrange(0, 8)))
        idb = idb[:7]
        idpool.append(idb)
        zzk = rng.random()
        if zzk < 0.2:
            zz = None
        elif zzk < 0.3:
            zz = 0xfe
        elif zzk < 0.45:
            zz = rng.choice(MASTERS[:6])
        else:
            zz = rng.choice(SLAVES)
        qq = rng.choice(MASTERS[:5]) if rng.random() < (0.5 if typ[0] == 'u' else 0.15) else None
        chain = None
        if typ in ('r', 'w') and len(idb) >= 1 and rng.random() < 0.2:
            # chained: parts differ in the last id byte
            chain = [idb, idb[:-1] + bytes([idb[-1] ^ rng.randrange(1, 256)])]
            if rng.random() < 0.3:
                chain.append(idb[:-1] + bytes([idb[-1] ^ 0x80 ^ chain[1][-1]]) if (idb[-1] ^ 0x80 ^ chain[1][-1]) not in (idb[-1], chain[1][-1]) else idb[:-1] + bytes([(idb[-1] + 7) & 0xff]))
            if len({bytes(c) for c in chain}) != len(chain):
                chain = None
        d = {'type': typ, 'circuit': 'c%d' % rng.randrange(3), 'name': 'n%d' % i, 'qq': qq, 'zz': zz, 'pbsb': rng.choice(PBSB),
             'id': idb, 'chain': chain}
        defs.append(d)
    return defs


def def_line(d):
    ids = d['id'].hex() if not d['chain'] else ';'.join(c.hex() for c in d['chain'])
    return '%s,%s,%s,,%s,%s,%s,%s,f,,UCH,,,' % (d['type'], d['circuit'], d['name'], '%02x' % d['qq'] if d['qq'] is not None else '',
                                                 '%02x' % d['zz'] if d['zz'] is not None else '', d['pbsb'], ids)


def ref_matches(d, tel, any_dest, rd, wr, pas):
    """does definition d match telegram tel=(qq, zz, pb, sb, data) under the flags?  returns matching id length or None"""
    qq, zz, pb, sb, data = tel
    if any_dest:
        if d['zz'] is not None:
            return None
    elif d['zz'] != zz:
        return None
    if bytes.fromhex(d['pbsb']) != bytes([pb, sb]):
        return None
    passive = d['type'][0] == 'u'
    if passive:
        if not pas:
            return None
        if d['qq'] is not None and d['qq'] != qq:
            return None
    elif d['type'] == 'w':
        if not wr:
            return None
    elif not rd:
        return None
    ids = d['chain'] if d['chain'] else [d['id']]
    for i in ids:
        if len(i) <= len(data) and data[:len(i)] == i:
            return len(i)
    return None


def gen_telegrams(rng, defs, n):
    tels = []
    for _ in range(n):
        r = rng.random()
        if defs and r < 0.85:
            d = rng.choice(defs)
            idb = rng.choice(d['chain']) if d['chain'] else d['id']
            qq = d['qq'] if d['qq'] is not None and rng.random() < 0.7 else rng.choice(MASTERS)
            zz = d['zz'] if d['zz'] is not None else rng.choice(SLAVES + [0xfe])
            pb, sb = bytes.fromhex(d['pbsb'])
            data = bytearray(idb)
            k = rng.random()
            if k < 0.25:
                data += bytes(rng.randrange(256) for _ in range(rng.randrange(0, 5)))
            elif k < 0.4 and len(data) > 0:
                data = data[:rng.randrange(0, len(data))]
            elif k < 0.6 and len(data) > 0:
                data[rng.randrange(len(data))] ^= rng.choice([1, 0x80, rng.randrange(1, 256)])
                data += bytes(rng.randrange(256) for _ in range(rng.randrange(0, 3)))
            elif k < 0.68:
                qq = rng.choice(MASTERS)
            elif k < 0.76:
                zz = rng.choice(SLAVES + MASTERS[:6] + [0xfe])
            elif k < 0.82:
                pb ^= rng.choice([1, 0x10])
            elif k < 0.88:
                sb ^= rng.choice([1, 0x10])
            elif k < 0.94 and len(data) >= 5:
                x = rng.randrange(1, 256)   # keep the XOR fold, change the bytes
                data[0] ^= x
                data[4] ^= x
            tels.append((qq, zz, pb, sb, bytes(data[:16])))
        else:
            pb, sb = bytes.fromhex(rng.choice(PBSB))
            tels.append((rng.choice(MASTERS), rng.choice(SLAVES + [0xfe] + MASTERS[:3]), pb, sb, bytes(rng.randrange(256) for _ in range(rng.randrange(0, 9)))))
    return tels


def shard(args):
    exe, seed, nmaps, ntel = args
    rng = random.Random(seed)
    stats = {'evaluations': 0, 'nontrivial': 0, 'maps': 0, 'defs_loaded': 0, 'defs_rejected': 0, 'null_results': 0, 'samples': []}
    viol = []
    for mi in range(nmaps):
        defs = gen_defs(rng, rng.randrange(2, 41))
        orders = [list(range(len(defs)))]
        for _ in range(2):
            o = list(range(len(defs)))
            rng.shuffle(o)
            orders.append(o)
        tels = gen_telegrams(rng, defs, ntel)
        flagsets = [(rng.random() < 0.15, rng.random() < 0.8, rng.random() < 0.8, rng.random() < 0.8, True) for _ in tels]
        lines = []
        plan = []
        for oi, order in enumerate(orders):
            lines.append('NEW\tm%d\t0' % oi)
            plan.append(None)
            for di in order:
                lines.append('LOAD\tm%d\t%s' % (oi, esc('\n' + def_line(defs[di]) + '\n')))
                plan.append(('load', oi, di))
            for ti, (tel, fl) in enumerate(zip(tels, flagsets)):
                qq, zz, pb, sb, data = tel
                m = bytes([qq, zz, pb, sb, len(data)]) + data
                lines.append('FIND\tm%d\t%s\t%d\t%d\t%d\t%d\t%d' % (oi, m.hex(), fl[0], fl[1], fl[2], fl[3], fl[4]))
                plan.append(('find', oi, ti))
        rc, outl, err = run_server(exe, lines)
        if rc != 0 or len(outl) != len(plan):
            return stats, viol + [('harness', 'msg_server rc=%s lines=%d/%d' % (rc, len(outl), len(plan)))] if rc == 0 else viol, (rc, err) if rc else None
        loaded = [set() for _ in orders]
        results = {}
        for pl, o in zip(plan, outl):
            if pl is None:
                continue
            if pl[0] == 'load':
                if o[1] == '0':
                    loaded[pl[1]].add(pl[2])
                    stats['defs_loaded'] += 1
                else:
                    stats['defs_rejected'] += 1
            else:
                results[(pl[1], pl[2])] = unesc(o[1])
        stats['maps'] += 1
        byname = {(d['circuit'], d['name']): i for i, d in enumerate(defs)}
        for ti, (tel, fl) in enumerate(zip(tels, flagsets)):
            lens = []
            chain_involved = False
            for oi in range(len(orders)):
                stats['evaluations'] += 1
                ms = {}
                for di in loaded[oi]:
                    l = ref_matches(defs[di], tel, fl[0], fl[1], fl[2], fl[3])
                    if l is not None:
                        ms[di] = l
                got = results[(oi, ti)]
                desc = 'telegram %s flags(any,rd,wr,pas)=%s, %d definitions, insertion order #%d' % (
                    (bytes(tel[:4]) + bytes([len(tel[4])]) + tel[4]).hex(), tuple(int(x) for x in fl[:4]), len(loaded[oi]), oi)
                if got == '-':
                    stats['null_results'] += 1
                    lens.append(None)
                    if ms:
                        best = max(ms.values())
                        cand = [defs[d]['name'] for d in ms if ms[d] == best]
                        viol.append(('missed-match', '%s: nothing returned although %s match(es), e.g. %s' % (desc, len(ms), def_line(defs[[d for d in ms][0]]))))
                    continue
                p = got.split('|')
                di = byname.get((p[0], p[1]))
                if p[0] == 'scan' or di is None:
                    if fl[0] and tel[2] == 0x07 and tel[3] == 0x04:
                        continue
                    viol.append(('unknown-result', '%s: returned %s' % (desc, got)))
                    continue
                if di not in ms:
                    viol.append(('wrong-match', '%s: returned %s which does not match (definition: %s)' % (desc, got, def_line(defs[di]))))
                    continue
                best = max(ms.values())
                lens.append(ms[di])
                chain_involved = chain_involved or any(defs[d]['chain'] for d in ms)
                if ms[di] < best:
                    other = [d for d in ms if ms[d] == best][0]
                    key = 'not-longest' + (':chain' if defs[other]['chain'] or defs[di]['chain'] else '')
                    viol.append((key, '%s: returned %s (id length %d) although %s matches with id length %d' % (
                        desc, def_line(defs[di]), ms[di], def_line(defs[other]), best)))
                if len(ms) >= 2:
                    stats['nontrivial'] += 1
            if len(set(lens)) > 1 and all(loaded[0] == l for l in loaded):
                viol.append(('order-dependent' + (':chain' if chain_involved else ''), 'telegram %s: matched id lengths %s differ between insertion orders' % (
                    (bytes(tel[:4]) + bytes([len(tel[4])]) + tel[4]).hex(), lens)))
        if len(stats['samples']) < 2 and defs:
            stats['samples'].append({'definitions': [def_line(d) for d in defs[:4]], 'telegram': (bytes(tels[0][:4]) + bytes([len(tels[0][4])]) + tels[0][4]).hex()})
    return stats, viol[:100], None


def main():
    c = Check('C08')
    exe = build_msg_server()
    nsh = 32
    nmaps, ntel = (600, 300) if c.thorough else (13, 300)
    tot = pool_run(c, shard, [(exe, c.seed * 1000 + i, nmaps, ntel) for i in range(nsh)])
    c.coverage.update({
        'evaluations': int(tot.get('evaluations', 0)),
        'distinct_nontrivial': int(tot.get('nontrivial', 0)),
        'rule': 'definition sets of 2..40 messages (PBSB from a pool of 5, ID 0..7 bytes with shared prefixes and equal XOR folds beyond 4 '
                'bytes, any/specific QQ, ZZ none/slave/master/broadcast, r/w/u/uw, chains) loaded line by line through the CSV loader in 3 '
                'insertion orders; 300 telegrams per set derived by keeping/truncating/extending/mutating bytes, random flag combinations. '
                'non-trivial = lookup for which >=2 loaded definitions match (one evaluation per telegram and insertion order)',
        'maps': int(tot.get('maps', 0)), 'definitions_loaded': int(tot.get('defs_loaded', 0)),
        'definitions_rejected_by_loader': int(tot.get('defs_rejected', 0)), 'lookups_returning_null': int(tot.get('null_results', 0)),
        'samples': tot.get('samples', []),
    })
    c.assumptions += ['anyDestination=true looks up definitions without destination only (template definitions), as the daemon uses it',
                      'the ID length of a chained definition is the length of its part IDs', 'no conditions: every loaded definition is available']
    c.finish(floor_nontrivial=1000)


if __name__ == '__main__':
    guarded_main(main)
