"""Shared helpers for the message level checks (C08 C09 C13 C17 C19): run harness/msg_server batches."""
import os
import subprocess
import sys
import tempfile

sys.path.insert(0, os.path.join(os.path.dirname(os.path.abspath(__file__)), '..', 'bin'))
sys.path.insert(0, os.path.join(os.path.dirname(os.path.abspath(__file__)), '..', 'oracle'))
from vlib import *
from codec_common import esc, unesc

TMP = os.path.join(BUILD, 'tmp')
MASTERS = [0x00, 0x10, 0x30, 0x70, 0xF0, 0x01, 0x11, 0x31, 0x71, 0xF1, 0x03, 0x13, 0x33, 0x73, 0xF3,
           0x07, 0x17, 0x37, 0x77, 0xF7, 0x0F, 0x1F, 0x3F, 0x7F, 0xFF]
HEADER = 'type,circuit,name,comment,qq,zz,pbsb,id,*name,part,type,divisor/values,unit,comment'


def build_msg_server():
    return build_harness('asan', 'msg_server', ['msg_server.cpp'], wraps=['time'])


def run_server(exe, lines, timeout=3000):
    """returns (rc, list of output lines (each split by TAB), stderr)"""
    os.makedirs(TMP, exist_ok=True)
    fd, path = tempfile.mkstemp(prefix='msg', dir=TMP)
    with os.fdopen(fd, 'w') as f:
        f.write('\n'.join(lines))
        f.write('\nQ\n')
    e = dict(os.environ)
    e.update(SAN_ENV)
    try:
        p = subprocess.run([exe, path], stdout=subprocess.PIPE, stderr=subprocess.PIPE, env=e, timeout=timeout)
    finally:
        os.unlink(path)
    out = p.stdout.decode('latin-1')
    return p.returncode, [l.split('\t') for l in out.split('\n') if l], p.stderr.decode('utf-8', 'replace')


def report_san(check, rc, err, what):
    reps = classify_sanitizer(err)
    cur = ''
    for line in err.splitlines():
        if line.startswith('CASE\t'):
            cur = line[5:]
    if reps:
        for key, summ in reps[:3]:
            check.violation(key, summ + ' case=' + cur[:300], err[-6000:])
    else:
        check.violation('crash:%s:%s' % (what, rc), 'abnormal exit %s case=%s' % (rc, cur[:300]), err[-6000:])


def pool_run(check, fn, argsl):
    """run fn over argsl in a process pool; fn returns (stats, violations, (rc, err) or None)"""
    import multiprocessing
    tot = {}
    with multiprocessing.Pool(min(NCPU, max(1, len(argsl)))) as pool:
        for stats, viol, san in pool.imap_unordered(fn, argsl):
            for k, v in stats.items():
                if isinstance(v, list):
                    tot.setdefault(k, [])
                    if len(tot[k]) < 6:
                        tot[k].extend(v[:2])
                elif isinstance(v, dict):
                    d = tot.setdefault(k, {})
                    for kk, vv in v.items():
                        d[kk] = d.get(kk, 0) + vv
                else:
                    tot[k] = tot.get(k, 0) + v
            for key, detail in viol:
                if key == 'harness':
                    check.inconclusive.append(detail[:400])
                else:
                    check.violation(key, detail)
            if san:
                report_san(check, san[0], san[1], fn.__module__)
    return tot
