#!/usr/bin/env python3
"""C12: codec results are pure. Long random histories of codec operations (valid, invalid, overflowing) run in one
process; at random points a probe operation is executed (a) in a pristine child forked before any codec work and
(b) in the history process (same thread or a fresh thread). Both must give the identical result code and output.
Also: several fields formatted onto one shared stream must equal the single-field outputs joined."""
import os, sys
sys.path.insert(0, os.path.dirname(os.path.abspath(__file__)))
from codec_jobs import *
import multiprocessing

NUMT = [t for t in RC.NUMS if RC.DAYF not in RC.NUMS[t].flags]
DTT = list(RC.DTS)
BAD_TEXTS = ['1e999', '-1e999', '99999999999999999999999999', '-99999999999999999999999999', '18446744073709551616', 'abc', '',
             '1e-999', '0x', '1..2', 'nan', '4294967297', '1e400', '9223372036854775808', '-9223372036854775809']
GOOD_TEXTS = ['0', '1', '2', '5', '10', '12', '100', '-1', '-5', '1.5', '0.5', '12.3', '42', '99', '7']


def rand_field(rng):
    r = rng.random()
    if r < 0.55:
        tid = rng.choice(NUMT)
        t = RC.NUMS[tid]
        dv = ''
        if t.div == 1 and RC.FIX not in t.flags and rng.random() < 0.4:
            dv = rng.choice(['10', '100', '-10', '1000'])
        elif rng.random() < 0.1:
            dv = '0=off;1=on;5=five'
        rg = ''
        if dv == '' and t.div == 1 and RC.EXP not in t.flags and RC.BCD not in t.flags and RC.HCD not in t.flags and rng.random() < 0.15:
            rg = rng.choice(['1-3', '0-100', '2-50']) if RC.SIG not in t.flags else rng.choice(['-5-10', '-100--3'])
        return tid, dv, rg, t.nbytes
    if r < 0.8:
        tid = rng.choice(DTT)
        return tid, '', '', RC.DTS[tid].nbytes
    if r < 0.9:
        first = rng.randrange(8)
        n = rng.randrange(1, RC.BIT_MAX[first] + 1)
        return ('BI7' if first == 7 else 'BI%d:%d' % (first, n)), '', '', 1
    ln = rng.randrange(1, 12)
    return '%s:%d' % (rng.choice(['STR', 'NTS', 'HEX']), ln), '', '', ln


def rand_op(rng, fid, nbytes, typ):
    if rng.random() < 0.5:
        fmt = rng.choice([0, 0, 0, OF_JSON | OF_SHORT, OF_NAMES, OF_NUMERIC])
        data = bytes(rng.choice([rng.randrange(256), 0xff, 0, 0x99, 0x12]) for _ in range(nbytes))
        return 'R\t%s\t%d\ts\t%s' % (fid, fmt, data.hex())
    r = rng.random()
    if r < 0.35:
        text = rng.choice(BAD_TEXTS)
    elif r < 0.8:
        text = rng.choice(GOOD_TEXTS)
    else:
        text = rng.choice(['01.02.2014', '12:30', '12:30:15', '-', 'on', 'Mon', '0a 1b', 'hello', '31.12.2099 23:59', '-.-.-', '24:00'])
    return 'W\t%s\ts\t-\t%s' % (fid, esc(text))


def shard(args):
    exe, seed, nhist, nops, nprobes = args
    rng = random.Random(seed)
    lines = []
    script = []   # per expected output line: None (ignored) or ('p', idx) / ('l', idx)
    probes = []
    for h in range(nhist):
        fields = []
        probe_at = set(rng.sample(range(nops), min(nprobes, nops)))
        for i in range(nops):
            if not fields or rng.random() < 0.25:
                typ, dv, rg, nb = rand_field(rng)
                fid = 'h%d' % len(fields)
                fields.append((fid, typ, dv, rg, nb))
                lines.append(dline(fid, [{'name': 'x', 'part': 's', 'type': typ, 'dv': dv, 'range': rg}]))
                script.append(None)
            fid, typ, dv, rg, nb = rng.choice(fields)
            lines.append(rand_op(rng, fid, nb, typ))
            script.append('op')
            if i in probe_at:
                typ, dv, rg, nb = rand_field(rng)
                d = dline('probe', [{'name': 'x', 'part': 's', 'type': typ, 'dv': dv, 'range': rg}])
                op = rand_op(rng, 'probe', nb, typ)
                idx = len(probes)
                probes.append({'def': d, 'op': op, 'hist': h, 'pos': i})
                lines += ['P', d, op]
                script.append(('p', idx))
                lines.append(d)
                script.append(None)
                if rng.random() < 0.3:
                    lines += ['T', op]
                    probes[idx]['thread'] = True
                else:
                    lines.append(op)
                script.append(('l', idx))
            if rng.random() < 0.06 and len(fields) >= 2:
                # several fields on one shared output stream
                k = rng.randrange(2, min(4, len(fields)) + 1)
                chosen = [rng.choice(fields) for _ in range(k)]
                fmt = rng.choice([0, OF_JSON | OF_SHORT, OF_NAMES])
                datas = [bytes(rng.choice([rng.randrange(256), 0x12, 0x01]) for _ in range(c[4])) for c in chosen]
                for c, dta in zip(chosen, datas):
                    lines.append('R\t%s\t%d\ts\t%s' % (c[0], fmt, dta.hex()))
                    script.append(('single', None))
                lines.append('RM\t%d\t%d\t%s' % (fmt, k, '\t'.join('%s\ts\t%s' % (c[0], dta.hex()) for c, dta in zip(chosen, datas))))
                script.append(('multi', k))
    rc, out, err = __import__('codec_common')._run_server(exe, lines, ['zygote=1'])
    outl = [l for l in out.split('\n') if l]
    stats = {'evaluations': 0, 'nontrivial': 0, 'probes': 0, 'failed_ops_before_probe': 0, 'multi_stream': 0, 'thread_probes': 0,
             'samples': []}
    viol = []
    if rc != 0 or len(outl) != len(script):
        return stats, viol, (rc if rc else -1, 'output lines %d != expected %d\n' % (len(outl), len(script)) + err[-6000:])
    failed_in_hist = {}
    pres = {}
    singles = []
    seen = set()
    for s, l in zip(script, outl):
        f = l.split('\t')
        if s == 'op':
            stats['evaluations'] += 1
            if len(f) > 1 and f[1].lstrip('-').isdigit() and int(f[1]) < 0:
                failed_in_hist['cur'] = failed_in_hist.get('cur', 0) + 1
            continue
        if s is None:
            continue
        if s[0] == 'single':
            singles.append(f)
            continue
        if s[0] == 'multi':
            k = s[1]
            parts = singles[-k:]
            singles = []
            stats['multi_stream'] += 1
            stats['evaluations'] += 1
            codes = [int(p[1]) for p in parts]
            if all(c == 0 for c in codes):
                want = '|'.join(p[2] if len(p) > 2 else '' for p in parts)
                got = f[2] if len(f) > 2 else ''
                if int(f[1]) != 0 or got != want:
                    viol.append(('shared-stream', 'fields formatted one after another on one stream give %r (code %s), separately %r' % (got, f[1], want)))
            continue
        kind, idx = s
        if kind == 'p':
            pres[idx] = f[1:]
            continue
        pr = probes[idx]
        stats['probes'] += 1
        stats['evaluations'] += 1
        if pr.get('thread'):
            stats['thread_probes'] += 1
        fresh = pres.get(idx)
        key = (pr['def'], pr['op'])
        if failed_in_hist.get('cur', 0) > 0:
            stats['failed_ops_before_probe'] += 1
            if key not in seen:
                seen.add(key)
                stats['nontrivial'] += 1
        if fresh is None or fresh != f:
            opf = pr['op'].split('\t')
            typ = pr['def'].split('\t')[6]
            viol.append(('impure:%s:%s' % (opf[0], typ.split(':')[0]),
                         'probe %s on %s: fresh process -> %s, after history (hist %d, op %d%s) -> %s' % (
                             pr['op'].replace('\t', ' '), pr['def'].replace('\t', ' '), fresh, pr['hist'], pr['pos'],
                             ', on new thread' if pr.get('thread') else '', f)))
        elif len(stats['samples']) < 2:
            stats['samples'].append('probe %s => %s (identical fresh and after %d ops)' % (pr['op'].replace('\t', ' '), f, pr['pos']))
    return stats, viol[:100], None



# ---- load order: permutations of independent template / definition lines give the same codec results ------------------------
FTYPES = [('UCH', ''), ('SCH', ''), ('D2C', ''), ('UIN', '10'), ('SIN', '-10'), ('ULG', ''), ('D1C', ''), ('BCD', ''), ('STR:3', ''), ('HEX:2', ''),
          ('BDA', ''), ('BTI', ''), ('UCH', '0=off;1=on;2=auto'), ('FLT', ''), ('PIN', ''), ('BI0:3', ''), ('TTM', ''), ('EXP', '')]
NB = {'UCH': 1, 'SCH': 1, 'D2C': 2, 'UIN': 2, 'SIN': 2, 'ULG': 4, 'D1C': 1, 'BCD': 1, 'STR:3': 3, 'HEX:2': 2, 'BDA': 4, 'BTI': 3, 'FLT': 2, 'PIN': 2, 'BI0:3': 1, 'TTM': 1, 'EXP': 4}


def order_shard(args):
    from msg_common import build_msg_server, run_server
    exe, seed, ncases = args
    rng = random.Random(seed)
    plines, pplan = [[] for _ in range(5)], [[] for _ in range(5)]
    stats = {'evaluations': 0, 'nontrivial': 0, 'order_cases': 0, 'order_permutations': 0, 'samples': []}
    for case in range(ncases):
        # independent template lines (no template refers to another one)
        tmpls = []
        for i in range(rng.randrange(3, 7)):
            typ, dv = rng.choice(FTYPES)
            tmpls.append(('t%d' % i, typ, dv, 't%d,%s,%s,,u%d,tc%d' % (i, typ, dv, i, i)))
        # templates of one base type that differ only in their value range (the derived types must not be mixed up)
        if rng.random() < 0.6:
            typ = rng.choice(['UCH', 'UIN', 'SCH', 'ULG'])
            for i, rg in enumerate(rng.sample(['1-3', '5-9', '0-100', '2-2', '10-20'], rng.randrange(2, 4))):
                tmpls.append(('g%d' % i, typ, '', 'g%d,%s,,%s,ug,range %s' % (i, typ, rg, rg)))
        msgs = []
        for k in range(rng.randrange(4, 9)):
            fields, nbytes = [], 0
            for j in range(rng.randrange(1, 4)):
                if rng.random() < 0.5:
                    t = rng.choice(tmpls)
                    typ, dv, ref = t[1], t[2], t[0]
                    extra = rng.choice(['', '', '10']) if dv == '' and typ in ('UCH', 'UIN', 'ULG', 'SCH') else ''
                    fields.append('f%d,,%s,%s,,' % (j, ref, extra))
                else:
                    typ, dv = rng.choice(FTYPES)
                    fields.append('f%d,,%s,%s,,' % (j, typ, dv))
                nbytes += NB[typ]
            wr = rng.random() < 0.3
            line = '%s,oc,m%d,,,08,b509,%s%02x,%s' % ('w' if wr else 'r', k, '0e' if wr else '0d', k, ','.join(fields))
            data = bytes(rng.choice([rng.randrange(256), 0x01, 0x12, 0x50, 0x02, 0x07, 0x00]) for _ in range(nbytes))
            msgs.append((k, wr, line, data))
        perms = [(list(tmpls), list(msgs))]
        for _ in range(3):
            a, b = list(tmpls), list(msgs)
            rng.shuffle(a); rng.shuffle(b)
            perms.append((a, b))
        perms.append((list(reversed(tmpls)), list(reversed(msgs))))
        for pi, (tl, ml) in enumerate(perms):
            lines, plan = plines[pi], pplan[pi]      # every permutation number runs in a process of its own (derived types are cached per process)
            mp = 'o%d_%d' % (case, pi)
            lines.append('TEMPL\t' + esc('name,*type,divisor/values,range,unit,comment\n' + '\n'.join(t[3] for t in tl) + '\n'))
            plan.append(('templ', case, pi, None))
            lines.append('NEW\t' + mp)
            plan.append((None, case, pi, None))
            lines.append('LOAD\t%s\t%s' % (mp, esc('#\n' + '\n'.join(m[2] for m in ml) + '\n')))
            plan.append(('load', case, pi, len(ml)))
            for k, wr, line, data in msgs:   # always probed in the canonical order
                if wr:
                    master = '3108b509%02x0e%02x%s' % (2 + len(data), k, data.hex())
                    slave = '00'
                else:
                    master = '3108b509020d%02x' % k
                    slave = '%02x%s' % (len(data), data.hex())
                lines.append('STORE\t%s\toc\tm%d\t%d\t0\t%s\t%s' % (mp, k, 1 if wr else 0, master, slave))
                plan.append(('res', case, pi, 'store m%d' % k))
                for fmt in (0, OF_NAMES | OF_UNITS | OF_COMMENTS):
                    lines.append('DECODE\t%s\toc\tm%d\t%d\t0\t%d' % (mp, k, 1 if wr else 0, fmt))
                    plan.append(('res', case, pi, 'decode m%d fmt %d' % (k, fmt)))
            lines.append('DUMP\t' + mp)
            plan.append(('dump', case, pi, None))
            lines.append('DEL\t' + mp)
            plan.append((None, case, pi, None))
        stats['order_cases'] += 1
        stats['order_permutations'] += len(perms)
    viol = []
    plan, out = [], []
    for pi in range(5):
        rc, o, err = run_server(exe, plines[pi])
        if rc != 0 or len(o) != len(pplan[pi]):
            return stats, viol, (rc if rc else -1, 'msg_server output lines %d != expected %d\n' % (len(o), len(pplan[pi])) + err[-6000:])
        plan += pplan[pi]
        out += o
    base = {}
    for (kind, case, pi, what), f in zip(plan, out):
        if kind is None:
            continue
        if kind in ('templ', 'load'):
            if f[1] != '0' or (kind == 'load' and int(f[2]) != what):
                viol.append(('load-order:load-failed', 'case %d permutation %d: %s -> %s' % (case, pi, kind, f)))
            continue
        if kind == 'dump':
            key = (case, 'dump')
            got = sorted(unesc(f[1]).split('\n'))
        else:
            key = (case, what)
            got = f
        stats['evaluations'] += 1
        if pi == 0:
            base[key] = got
            continue
        stats['nontrivial'] += 1
        if base.get(key) != got:
            viol.append(('load-order:%s' % (what.split(' ')[0] if what else 'dump'),
                         'case %d (seed %d): %s gives %s when the lines are loaded in the written order, %s in permutation %d' % (case, seed, what or 'dump', base.get(key), got, pi)))
    if not viol and len(stats['samples']) < 1:
        stats['samples'].append('load order: %d cases x %d permutations agree on every store/decode/dump' % (stats['order_cases'], 5))
    return stats, viol[:50], None


def main():
    c = Check('C12')
    exe = build_harness('asan', 'codec_server', ['codec_server.cpp'])
    nsh = 32 if c.thorough else 16
    nhist, nops, nprobes = (300, 200, 20) if c.thorough else (20, 200, 20)
    tot = {}
    from msg_common import build_msg_server
    mexe = build_msg_server()
    import itertools
    with multiprocessing.Pool(NCPU) as pool:
        jobs = itertools.chain(pool.imap_unordered(shard, [(exe, c.seed * 1000 + i, nhist, nops, nprobes) for i in range(nsh)]),
                               pool.imap_unordered(order_shard, [(mexe, c.seed * 1000 + 500 + i, 400 if c.thorough else 25) for i in range(16)]))
        for stats, viol, san in jobs:
            for k, v in stats.items():
                if isinstance(v, list):
                    tot.setdefault(k, [])
                    if len(tot[k]) < 6:
                        tot[k].extend(v[:1])
                else:
                    tot[k] = tot.get(k, 0) + v
            for key, detail in viol:
                c.violation(key, detail)
            if san:
                rc, err = san
                reps = classify_sanitizer(err)
                if reps:
                    for key, summ in reps[:3]:
                        c.violation(key, summ, err)
                else:
                    c.inconclusive.append('codec_server shard failed rc=%s: %s' % (rc, err[:300]))
    c.coverage.update({
        'evaluations': int(tot.get('evaluations', 0)),
        'distinct_nontrivial': int(tot.get('nontrivial', 0)),
        'rule': '%d histories x %d random codec operations (all base types, divisors, ranges, value lists; valid, malformed and '
                'overflowing inputs such as 1e999) with %d probes each; every probe runs in a pristine forked child and in the history '
                'process (30%% on a new thread). non-trivial = distinct probe executed after at least one failed operation in the process; '
                'plus load order: generated files of 3..6 independent template lines and 4..8 independent definition lines (fields using '
                'templates with and without extra divisor, and base types) loaded in the written order, 3 random permutations and reversed; '
                'every store/decode (two formats) and the sorted dump must agree with the written order (non-trivial = comparison in a permuted load)'
                % (nsh * nhist, nops, nprobes),
        'load_order_cases': int(tot.get('order_cases', 0)), 'load_order_permutations': int(tot.get('order_permutations', 0)),
        'probes': int(tot.get('probes', 0)), 'probes_after_failed_ops': int(tot.get('failed_ops_before_probe', 0)),
        'thread_probes': int(tot.get('thread_probes', 0)), 'shared_stream_cases': int(tot.get('multi_stream', 0)),
        'samples': tot.get('samples', []),
    })
    c.assumptions += ['the pristine child is forked from a zygote created before any codec operation, i.e. after static initialisation only',
                      'load-order independence of definition files is exercised by the C19/C09 drivers (message level), not here']
    c.finish(floor_nontrivial=500)


if __name__ == '__main__':
    guarded_main(main)
