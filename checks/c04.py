#!/usr/bin/env python3
"""C04: every bus request completes exactly once under faults and interleavings (harness/c04_driver.cpp).
Mode D: deterministic fault enumeration at every I/O call index; mode S: multi-threaded stress under ASan+UBSan and TSan."""
import os, sys, re
sys.path.insert(0, os.path.join(os.path.dirname(os.path.abspath(__file__)), '..', 'bin'))
from vlib import *

IN_SCOPE = re.compile(r'Queue<|BusRequest|ActiveBusRequest|PollRequest::|ScanRequest::(?!notify)|TrackedReq|::addRequest|::sendAndWait')
HARNESS_ONLY = re.compile(r'/verif/harness/')


def tsan_reports(err):
    """split TSan output into report blocks; returns (in_scope, out_of_scope) lists of (key, text)"""
    blocks = re.split(r'\n==================\n', err)
    ins, outs = [], []
    for b in blocks:
        m = re.search(r'WARNING: ThreadSanitizer: ([^\n(]+)', b)
        if not m:
            continue
        kind = m.group(1).strip()
        frames = re.findall(r'#\d+ ([^\n]*?) (/[^\s:]+):\d+', b)
        repo_frames = [f for f, p in frames if p.startswith('/repo/src')]
        top = repo_frames[0] if repo_frames else (frames[0][0] if frames else '?')
        key = 'tsan:%s:%s' % (kind, re.sub(r'\(.*', '', top).strip())
        if not repo_frames:
            continue    # both stacks entirely inside the harness/runtime: a harness artefact, not ebusd
        # in scope: one of the two conflicting accesses happens in the request hand-over itself (queue, request object,
        # addRequest/sendAndWait); races on other shared state reached from a request callback (message map, message data,
        # status flags) are listed but belong to no statement of C04
        tops = []
        for sec in re.split(r'\n\s*\n', b):
            if re.match(r'\s*(WARNING: ThreadSanitizer.*\n)?\s*((Previous )?(atomic )?(read|write)|(Read|Write)) of size', sec, re.I):
                fr = [f for f, pth in re.findall(r'#\d+ ([^\n]*?) (/[^\s:]+):\d+', sec) if pth.startswith('/repo/src') or pth.startswith('/verif/harness')]
                if fr:
                    tops.append(fr[0])
        if any(IN_SCOPE.search(t) for t in tops):
            ins.append((key, b[:3000]))
        else:
            outs.append((key, b[:600]))
    return ins, outs


def main():
    c = Check('C04', level='fault_enumeration')
    exe = build_harness('asan', 'c04_driver', ['c04_driver.cpp', 'vbus.cpp'], wraps=WRAPS_BUS)
    exe_t = build_harness('tsan', 'c04_driver', ['c04_driver.cpp', 'vbus.cpp'], wraps=WRAPS_BUS)
    exe_b = build_harness('asan', 'c04b_driver', ['c04b_driver.cpp', 'vbus.cpp'], wraps=WRAPS_BUS, need_ebusd=True)
    exe_bt = build_harness('tsan', 'c04b_driver', ['c04b_driver.cpp', 'vbus.cpp'], wraps=WRAPS_BUS, need_ebusd=True)
    nD, maxf = (12, 100000) if c.thorough else (6, 40)
    cmds = [[exe, 'mode=D', 'seed=%d' % (c.seed * 100 + i), 'n=%d' % nD, 'maxfaults=%d' % maxf] for i in range(16)]
    cmds += [[exe, 'mode=S', 'seed=%d' % (c.seed * 100 + 50 + i), 'n=%d' % (120 if c.thorough else 8)] for i in range(8)]
    cmds += [[exe_b, 'seed=%d' % (c.seed * 100 + 70 + i), 'n=%d' % (400 if c.thorough else 40)] for i in range(8)]
    res = run_shards(cmds, timeout=7200 if c.thorough else 900)
    c.add_result(res)
    tot = merge_stats(res.stats)
    # TSan runs: reports are classified, not fatal
    tcmds = [[exe_t, 'mode=S', 'seed=%d' % (c.seed * 100 + 80 + i), 'n=%d' % (40 if c.thorough else 4)] for i in range(8)]
    tcmds += [[exe_bt, 'seed=%d' % (c.seed * 100 + 90 + i), 'n=%d' % (100 if c.thorough else 8)] for i in range(4)]
    e = dict(os.environ)
    e['TSAN_OPTIONS'] = 'halt_on_error=0:exitcode=0:report_signal_unsafe=0:history_size=4'
    import subprocess, concurrent.futures
    def one(cmd):
        try:
            p = subprocess.run(cmd, stdout=subprocess.PIPE, stderr=subprocess.PIPE, env=e, timeout=3000 if c.thorough else 900)
            return cmd, p.returncode, p.stdout.decode('utf-8', 'replace'), p.stderr.decode('utf-8', 'replace')
        except subprocess.TimeoutExpired:
            return cmd, None, '', ''
    ins_all, outs_all = {}, {}
    tstats = []
    with concurrent.futures.ThreadPoolExecutor(8) as ex:
        for cmd, rc, out, err in ex.map(one, tcmds):
            if rc is None:
                c.inconclusive.append('tsan run timed out: ' + ' '.join(cmd))
                continue
            for line in out.splitlines():
                if line.startswith('V\t'):
                    parts = line.split('\t', 2)
                    c.violation(parts[1], (parts[2] if len(parts) > 2 else '') + ' [tsan build]', ' '.join(cmd))
                elif line.startswith('S\t'):
                    tstats.append(json.loads(line[2:]))
            ins, outs = tsan_reports(err)
            for k, t in ins:
                ins_all.setdefault(k, t)
            for k, t in outs:
                outs_all[k] = outs_all.get(k, 0) + 1
            if rc not in (0, 1):
                c.violation('crash:tsan:%s' % rc, 'abnormal exit of the TSan build', ' '.join(cmd) + '\n' + err[-3000:])
    for k, t in ins_all.items():
        c.violation(k, 'ThreadSanitizer report touching the request hand-over', t)
    ttot = merge_stats(tstats)
    c.coverage.update({
        'evaluations': int(tot.get('evaluations', 0)) + int(ttot.get('evaluations', 0)),
        'distinct_nontrivial': int(tot.get('distinct_nontrivial', 0)) + int(ttot.get('distinct_nontrivial', 0)),
        'rule': 'mode D: scenario = 1..3 client threads with 2..6 requests (waited via addRequest(wait), sendAndWait, fire-and-forget with '
                'deleteOnFinish, restarting 1..3 times) released at scripted virtual times by a rendezvous with the bus thread, competing '
                'masters and NAK/CRC faults of the peers; the baseline run counts the ppoll/read/write calls, then the scenario is re-run '
                'with ONE fault at each call index (poll hang-up, read error, read 0, write error, short write; quick: every k-th index, max %d '
                'per scenario) plus 12 device-invalid/reopen and 12 signal-loss windows. mode S: 2..8 free running client threads x 20..60 '
                'requests with random yields and periodic faults, under ASan+UBSan and under TSan. non-trivial = run in which an injected '
                'fault fired (D) / with faults or contended waits (S); runs are distinct by (scenario seed, fault index). Part B '
                '(c04b_driver): the request kinds the daemon itself creates on the threaded stack - 1..4 client threads reading their messages through '
                'BusHandler::readFromBus (sendAndWait), PollRequests created on ps_empty for 1..5 poll messages and a chained one, '
                'scanAndWait + startScan, foreign traffic and 0..4 I/O faults; every successful read / stored poll result must be the answer '
                'to its own telegram and backed by a valid exchange on the wire, sent-message reports <= valid own exchanges; ASan/LSan and TSan' % maxf,
        'part_b_runs': int(tot.get('poll_triggers', 0) > 0) and int(tot.get('evaluations', 0)), 'part_b_ok_reads': int(tot.get('ok_reads', 0)),
        'part_b_polled_messages': int(tot.get('polled_messages', 0)), 'part_b_chained_polls': int(tot.get('chained_polls_completed', 0)),
        'part_b_scan_results': tot.get('scan_results', {}), 'part_b_read_results': tot.get('read_results', {}),
        'io_calls_observed': int(tot.get('io_calls', 0)), 'faults_fired': int(tot.get('faults_fired', 0)),
        'fault_kinds': tot.get('fault_kinds', {}), 'request_kinds': tot.get('kinds', {}), 'request_results': tot.get('results', {}),
        'client_wait_episodes': int(tot.get('client_wait_episodes', 0)) + int(ttot.get('client_wait_episodes', 0)),
        'tsan_runs': int(ttot.get('evaluations', 0)), 'tsan_reports_in_scope': len(ins_all),
        'tsan_reports_out_of_scope': outs_all, 'inconclusive_stalls': int(tot.get('inconclusive_stalls', 0)),
        'samples': tot.get('samples', []),
    })
    c.assumptions += ['"eventually" is replaced by the virtual-time bound (N+1)(sendRetries+1)(lostRetries+1)*200 ms + 10 s after the last fault',
                      'TSan reports count for C04 only if a stack touches Queue<>, a BusRequest class or the request queues; races on '
                      'plain status flags (Thread::m_running/m_stopped, m_state read by hasSignal(), m_reconnect) are listed, not judged',
                      'a real-time watchdog (30 s) firing before the virtual bound is passed is counted as an inconclusive stall']
    if int(tot.get('inconclusive_stalls', 0)) > max(2, int(tot.get('evaluations', 0)) // 50):
        c.inconclusive.append('%d runs stalled' % int(tot.get('inconclusive_stalls', 0)))
    c.finish(floor_nontrivial=100)


if __name__ == '__main__':
    guarded_main(main)
