#!/usr/bin/env python3
"""C05: decoding yields the specified value for every built-in type (exhaustive 1-/2-byte sweeps, all days of a
century, boundary+random wide patterns) -- real DataField::read output versus oracle/ref_codec.py."""
import os, sys
sys.path.insert(0, os.path.dirname(os.path.abspath(__file__)))
from codec_jobs import *


def judge(job, data, f, stats):
    if data is None:   # definition result line
        if f[2] != '0':
            return [('define-failed:%s' % job.typ, 'DataField::create(%s,%s) -> %s' % (job.typ, job.dv, f[2]))]
        return None
    code = int(f[2])
    text = strip_json(job, unesc(f[3]))
    exp = expect_decode(job, data)
    if exp[0] in ('any', 'err_or_any'):
        stats['unjudged'] += 1
        return None
    stats['judged'] += 1
    if exp[0] == 'err':
        stats['errors_expected'] += 1
    elif exp[0] == 'null':
        stats['nulls'] += 1
    elif any(data):
        stats['nontrivial'] += 1
    why = RC.check_decode(exp, code, text, bool(job.fmt & OF_JSON))
    if why:
        m = job.meta
        cls = exp[0]
        key = 'decode:%s:%s:%s' % (m.get('tid', job.typ), 'json' if job.fmt & OF_JSON else 'text', cls)
        return [(key, '%s dv=%r fmt=%d data=%s: %s' % (job.typ, job.dv, job.fmt, data.hex(), why))]
    return None


def knx16_ref(v):
    """KNX DPT 9: (0.01*m)*2^e, m = 12 bit two's complement (sign in bit 15, 11 bits mantissa), e = bits 11..14; 0x7fff invalid"""
    import struct
    if v == 0x7fff:
        return None
    e = (v >> 11) & 0xf
    m = v & 0x7ff
    if v & 0x8000:
        m -= 0x800
    return struct.unpack('f', struct.pack('f', m * (2 ** e) * 0.01))[0]


def knx16_check(c, exe):
    """all 65536 patterns through uint16ToFloat (the KNX 16 bit float helper of datatype.cpp) against the DPT 9 definition"""
    import struct, math
    from codec_common import _run_server
    rc, out, err = _run_server(exe, ['K16\t0\t65536'], [])
    if rc != 0:
        for key, summ in classify_sanitizer(err)[:3] or [('crash:knx16:%s' % rc, 'abnormal exit')]:
            c.violation(key, summ, err[-4000:])
        return 0
    line = [l for l in out.split('\n') if l.startswith('k\t')][0][2:]
    items = [x for x in line.split(';') if x]
    bad = 0
    for v, it in enumerate(items):
        val, re_hex, re_val = it.split(':')
        exp = knx16_ref(v)
        got = float(val)
        if exp is None:
            if not math.isnan(got) and bad < 20:
                c.violation('decode:KNX16', 'uint16ToFloat(0x%04x) = %s, expected NaN (invalid)' % (v, val)); bad += 1
            continue
        if struct.pack('f', got) != struct.pack('f', exp) and not (got == 0 and exp == 0):
            if bad < 20:
                c.violation('decode:KNX16', 'uint16ToFloat(0x%04x) = %s, expected %.9g' % (v, val, exp))
            bad += 1
    return len(items)


def main():
    c = Check('C05')
    exe = build_harness('asan', 'codec_server', ['codec_server.cpp'])
    rng = random.Random(c.seed)
    jobs = build_jobs(rng, c.thorough)
    tot = run_jobs(c, exe, jobs, 'judge', 'c05')
    knx = knx16_check(c, exe)
    tot['evaluations'] = tot.get('evaluations', 0) + knx
    tot['nontrivial'] = tot.get('nontrivial', 0) + knx
    import neighbour
    nb = neighbour.run_neighbours(c, exe, False)
    tot['evaluations'] = tot.get('evaluations', 0) + nb.get('evaluations', 0)
    c.coverage.update({
        'two_field_sets': {'set_decodes_compared_with_the_fields_alone': int(nb.get('set_decodes', 0)), 'set_texts_encoded_back': int(nb.get('set_encodes', 0)),
                           'second_field_x_predecessor_pairs': int(nb.get('neighbour_pairs', 0))},
        'evaluations': int(tot.get('evaluations', 0)),
        'distinct_nontrivial': int(tot.get('nontrivial', 0)),
        'rule': 'every numeric/BCD/HCD/bit/time type of 1 or 2 bytes: all 256/65536 raw patterns per (type, divisor, format); '
                'BDA/BDZ/HDA(3,4 byte): all 36525 days 2000-2099 + random invalid; DAY all 65536; DTM every day 2009-2099 + random; '
                'BTI/HTI/VTI all (thorough) or every 7th second + random invalid; 3-/4-byte numerics: boundaries + random; strings '
                'of every length 1..31; TEM_P all 65536 in both parts; all 65536 patterns of the KNX 16 bit float helper uint16ToFloat. Patterns are distinct per job by construction; '
                'non-trivial = judged pattern that is not all-zero and whose expectation is a value (not null, not error)',
        'exhaustive': True,
        'judged': int(tot.get('judged', 0)), 'unjudged_ambiguous': int(tot.get('unjudged', 0)),
        'expected_errors': int(tot.get('errors_expected', 0)), 'expected_nulls': int(tot.get('nulls', 0)),
        'jobs': len(jobs),
        'samples': tot.get('samples', []),
    })
    c.assumptions += ['reference type table transcribed from the comments in DataTypeList::DataTypeList()',
                      'numbers with divisor are judged up to float32 rounding (relative 2^-22) plus half a unit of the printed precision',
                      'mixed null/non-null date and time parts, day > days-in-month, DTM beyond 31.12.2099, value-list fallbacks and '
                      'non-printable characters are recorded but not judged (definition silent)']
    c.finish(floor_nontrivial=500000)


if __name__ == '__main__':
    guarded_main(main)
