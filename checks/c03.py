#!/usr/bin/env python3
"""C03: ebusd transmits on the bus only when it is entitled to."""
import os, sys
sys.path.insert(0, os.path.dirname(os.path.abspath(__file__)))
from bus_active import *

guarded_main(lambda: run_active(
    'C03', 'c03',
    'same scenario families as C02 (competing masters colliding at arbitration with higher/lower priority and same/other priority class, '
    'foreign telegrams of every shape, noise bytes, silent gaps 100..1500 ms, requests submitted at random virtual times, echo faults, '
    'read-only configurations); every byte the host puts on the wire must be justified by the entitlement monitor: arbitration byte '
    'directly after SYN with a pending request (and not at the first SYN after a lost arbitration), echo-verified continuation of a won '
    'exchange, or nothing; silence until the next SYN after a lost arbitration / echo mismatch / error; nothing at all when read-only. '
    'non-trivial = scenario with host transmissions and at least one adverse event',
    ['"directly after SYN" is judged in bus event order', 'AUTO-SYN generation is disabled in these scenarios (covered separately)'], 200))
