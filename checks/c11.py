#!/usr/bin/env python3
"""C11: CRC, escaping, address classes -- exhaustive sweeps of the real functions against spec references."""
import os, sys
sys.path.insert(0, os.path.join(os.path.dirname(os.path.abspath(__file__)), '..', 'bin'))
from vlib import *


def main():
    c = Check('C11')
    exe = build_harness('asan', 'c11_symbol', ['c11_symbol.cpp'])
    cmds = [[exe, 'mode=crc'], [exe, 'mode=addr']]
    if c.thorough:
        shards = 16
        cmds += [[exe, 'mode=parse', 'depth=3', 'depth7=8', 'shard=%d' % i, 'shards=%d' % shards] for i in range(shards)]
        cmds += [[exe, 'mode=random', 'seed=%d' % (c.seed * 100 + i), 'n=100000'] for i in range(8)]
    else:
        cmds += [[exe, 'mode=parse', 'depth=2', 'depth7=6']]
        cmds += [[exe, 'mode=random', 'seed=%d' % (c.seed * 100 + i), 'n=8000'] for i in range(4)]
    res = run_shards(cmds, timeout=1800 if c.thorough else 600)
    c.add_result(res)
    tot = merge_stats(res.stats)
    c.coverage.update({
        'evaluations': int(tot.get('evaluations', 0)),
        'distinct_nontrivial': int(tot.get('distinct_nontrivial', 0)),
        'rule': 'exhaustive: all 65536 (crc,symbol) steps of updateCrc, calcCrc on all strings of length<=2, all 256 '
                'addresses through all address predicates, parseHexEscaped on every byte string of length<=%d and every '
                'string over {00,01,02,a8,a9,aa,ab} up to length %d; random: strings up to 260 bytes biased to a9/aa. '
                'non-trivial = step with crc!=0 and symbol!=0 / string with a non-zero byte (calcCrc, deduplicated by '
                'hash) / escaped string containing a9 or aa (parse) / every address' % ((3, 8) if c.thorough else (2, 6)),
        'exhaustive': True,
        'crc_steps': int(tot.get('crc_steps', 0)),
        'addresses': int(tot.get('addresses', 0)),
        'parse_invalid_cases': int(tot.get('parse_invalid_cases', 0)),
        'samples': tot.get('samples', []),
    })
    c.assumptions += ['reference CRC is the bit-serial algorithm of the eBUS specification (generator 0x19B, init 0)',
                      'odd-length hex and leading blanks/signs accepted by strtoul are outside the statement and not judged']
    if tot.get('crc_steps', 0) != 65536 or tot.get('addresses', 0) != 256:
        c.inconclusive.append('exhaustive sweeps incomplete')
    c.finish(floor_nontrivial=60000)


guarded_main(main)
