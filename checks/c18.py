#!/usr/bin/env python3
"""C18: request parsing: TCP argument splitting, HTTP percent-decoding + root confinement, MQTT topic mapping
(harness/daemon_driver.cpp modes c18a, c18b, c18c, c18m)."""
import os, sys
sys.path.insert(0, os.path.join(os.path.dirname(os.path.abspath(__file__)), '..', 'bin'))
from vlib import *
from c16 import build_daemon_driver

TOPICS = ['ebusd/%circuit/%name', 'eb/%circuit/%name/%field', 'x/%name-y/%circuit', '%circuit/%name', 'e-%name/%circuit/%field', '%{circuit}-x/%{name}']


def main():
    c = Check('C18')
    exe = build_daemon_driver()
    cmds = []
    ns = 4
    for i in range(ns):     # (a) lines over {a,b,blank,",'}: all up to the length bound, interleaved over shards
        cmds.append([exe, 'mode=c18a', 'seed=%d' % (c.seed * 10 + i), 'len=%d' % (10 if c.thorough else 7), 'from=%d' % i, 'stride=%d' % ns,
                     'n=%d' % (600000 if c.thorough else 15000)])
    nb = 8
    for i in range(nb):     # (b) URIs over {%,2,5,e,E,f,/,.,?,a}
        cmds.append([exe, 'mode=c18b', 'seed=%d' % (c.seed * 10 + i), 'len=%d' % (7 if c.thorough else 5), 'from=%d' % i, 'stride=%d' % nb,
                     'n=%d' % (300000 if c.thorough else 8000)])
    cmds.append([exe, 'mode=c18c', 'seed=%d' % c.seed, 'per=%d' % (400 if c.thorough else 30)])
    for i, t in enumerate(TOPICS):
        cmds.append([exe, 'mode=c18m', 'seed=%d' % (c.seed * 10 + i), 'n=%d' % (600 if c.thorough else 25), 'mqtttopic=' + t])
    res = run_shards(cmds, timeout=3000 if c.thorough else 900)
    c.add_result(res)
    tot = merge_stats(res.stats)
    c.coverage.update({
        'evaluations': int(tot.get('evaluations', 0)),
        'distinct_nontrivial': int(tot.get('distinct_nontrivial', 0)),
        'rule': '(a) every line over {a,b,blank,",\'} up to the length bound plus client-encoded argument lists, delivered to RequestImpl::add in '
                'random pieces with LF or CRLF, split() compared with a reference splitter and with the encoded arguments; (b) every URI "/"+s, s '
                'over {%,2,5,e,E,f,/,.,?,a} up to the length bound (and without leading slash for short ones), plus random real/escaping paths '
                'percent-encoded partially, fully, or twice, requested through RequestImpl(true)+MainLoop::decodeRequest from an HTML root that '
                'sits inside a tree with marked files outside; the response must never carry an outside marker, and for well-formed escapes it '
                'is 200 with exactly the file named by decoding once (file system resolves the decoded path) or not 200; (c) every template of '
                '1..3 of %circuit/%name/%field in any order with prefixes/separators/suffixes containing a non-identifier character (both %x and '
                '%{x} forms): get() text and match() of topic+/get|/set|/list compared with the generating triple; and MQTT topics delivered to '
                'the real MqttHandler must read/write exactly the message they were built for. non-trivial = line with >= 2 arguments / URI '
                'that names an existing servable file / 3-field template case / MQTT topic delivered',
        'exhaustive_lines': int(tot.get('exhaustive_lines', 0)), 'encoded_argument_lists': int(tot.get('encoded_argument_lists', 0)),
        'unterminated_quote_lines_last_argument_not_judged': int(tot.get('unterminated_quote_lines', 0)),
        'exhaustive_uris': int(tot.get('exhaustive_uris', 0)), 'double_encoded_uris': int(tot.get('double_encoded_uris', 0)),
        'malformed_escape_uris_confinement_only': int(tot.get('malformed_escape_uris', 0)), 'served_after_decoding': int(tot.get('served_after_decoding', 0)),
        'http_status': tot.get('http_status', {}), 'templates': int(tot.get('templates', 0)), 'mqtt_worlds': int(tot.get('worlds', 0)),
        'samples': ['exhaustive lines %d, encoded argument lists %d' % (int(tot.get('exhaustive_lines', 0)), int(tot.get('encoded_argument_lists', 0))),
                    'exhaustive URIs %d, served after decoding %d, status %s' % (int(tot.get('exhaustive_uris', 0)), int(tot.get('served_after_decoding', 0)), tot.get('http_status', {})),
                    'templates %d, topics through MqttHandler in %d worlds' % (int(tot.get('templates', 0)), int(tot.get('worlds', 0)))],
    })
    c.assumptions += [
        'a quoted argument ends at the first occurrence of its quote character that is followed by a blank or the end of the line; for a line whose '
        'last argument has no closing quote only the text up to trailing blanks is judged',
        'one command line per add() sequence (several lines delivered in one piece are not part of the statement)',
        'URIs with a malformed escape (% not followed by two hex digits) and URIs whose decoded path contains "?" are judged for root confinement only',
        'topic templates are those accepted by parse(onlyKnown, noKnownDuplicates) and checkMatchability whose constants contain a non-identifier character',
    ]
    c.finish(floor_nontrivial=1000)


if __name__ == '__main__':
    guarded_main(main)
