#!/usr/bin/env python3
"""C13: conditional availability follows the referenced value through any history. Definition files with a referenced
message (1..4 fields) and conditional messages for every condition shape are loaded by the real loader; histories of
storeLastData updates under a virtual clock (steps 0,0,0,1,2,60 s) interleaved with isAvailable()/find() queries are
compared with a reference predicate on the last stored value.  Also: resolveConditions must succeed exactly when the
referenced message and field exist."""
import os, sys, random
sys.path.insert(0, os.path.dirname(os.path.abspath(__file__)))
from msg_common import *


def parse_ranges(spec):
    """reference reading of a numeric condition value list -> list of (lo, hi) inclusive on the raw value"""
    out = []
    for part in spec.split(';'):
        part = part.strip()
        if part.startswith('<='):
            out.append((0, int(part[2:])))
        elif part.startswith('>='):
            out.append((int(part[2:]), 2 ** 32 - 1))
        elif part.startswith('<'):
            out.append((0, int(part[1:]) - 1))
        elif part.startswith('>'):
            out.append((int(part[1:]) + 1, 2 ** 32 - 1))
        elif '-' in part[1:]:
            a, b = part.split('-', 1)
            out.append((int(a), int(b)))
        else:
            out.append((int(part), int(part)))
    return out


def gen_world(rng):
    """referenced message with fields, conditions, conditional messages"""
    nf = rng.randrange(1, 5)
    fields = []
    kinds = []
    for i in range(nf):
        k = rng.choice(['u8', 'u8', 'u16', 'str', 'bits', 'bits7'])
        if k in ('bits', 'bits7') and kinds and kinds[-1] == 'bits':
            k = 'u8'      # (whether two adjacent groups of bit fields share a byte is a layout question of C10, not generated here)
        kinds.append(k)
        if k == 'bits7':
            # a group that ends at bit 7: whatever follows (another bit group as well) starts in the next byte; the numeric read used
            # by conditions has to track that like the normal decode does (seeded change C13/7)
            fields.append({'name': 'f%da' % i, 'kind': 'bit', 'type': 'BI0:1', 'first': 0, 'nbits': 1, 'lead': True})
            fields.append({'name': 'f%db' % i, 'kind': 'bit', 'type': 'BI6:2', 'first': 6, 'nbits': 2, 'lead': False})
            continue
        if k == 'bits':
            # two bit fields sharing one byte (the fields behind them start one byte later, not two)
            fields.append({'name': 'f%da' % i, 'kind': 'bit', 'type': 'BI0:1', 'first': 0, 'nbits': 1, 'lead': True})
            fields.append({'name': 'f%db' % i, 'kind': 'bit', 'type': 'BI1:2', 'first': 1, 'nbits': 2, 'lead': False})
            continue
        fields.append({'name': 'f%d' % i, 'kind': k, 'type': {'u8': 'UCH', 'u16': 'UIN', 'str': 'STR:2'}[k]})
    # a second referenced message (conditions on different messages combine) and a same-named write sibling of the first one
    fields2 = [{'name': 'g%d' % i, 'kind': 'u8', 'type': 'UCH'} for i in range(rng.randrange(1, 3))] if rng.random() < 0.5 else []
    world = {'fields': fields, 'fields2': fields2, 'sibling': rng.random() < 0.4}
    conds = []
    nc = rng.randrange(1, 6)
    for ci in range(nc):
        shape = rng.choice(['list', 'range', 'cmp', 'str', 'novalue', 'missingfield', 'wrongkind', 'unnamed', 'missingmsg'])
        c = {'name': 'c%d' % ci, 'shape': shape, 'msg': 'ref', 'field': '', 'values': '', 'numeric': True, 'resolvable': True, 'judge_eval': True}
        nums = [f for f in fields if f['kind'] != 'str']
        strs = [f for f in fields if f['kind'] == 'str']
        if fields2 and shape in ('list', 'range', 'cmp', 'novalue') and rng.random() < 0.5:
            c['msg'] = 'ref2'
            nums = fields2
        if shape in ('list', 'range', 'cmp'):
            if not nums:
                shape = c['shape'] = 'novalue'
            else:
                f = rng.choice(nums)
                c['field'] = f['name']
                if shape == 'list':
                    c['values'] = ';'.join(str(v) for v in sorted(rng.sample(range(0, 12), rng.randrange(1, 4))))
                elif shape == 'range':
                    a = rng.randrange(0, 8)
                    c['values'] = '%d-%d' % (a, a + rng.randrange(0, 5)) + (';%d' % rng.randrange(9, 12) if rng.random() < 0.3 else '')
                else:
                    c['values'] = rng.choice(['<', '>', '<=', '>=']) + str(rng.randrange(1, 10))
        if shape == 'str':
            if not strs:
                shape = c['shape'] = 'novalue'
            else:
                f = rng.choice(strs)
                c['field'] = f['name']
                c['numeric'] = False
                c['values'] = ';'.join("'%s'" % v for v in rng.sample(['ab', 'cd', 'xy', 'zz'], rng.randrange(1, 3)))
        if shape == 'missingfield':
            c['field'] = 'nosuch'
            c['values'] = '1;2'
            c['resolvable'] = False
        if shape == 'wrongkind':
            if strs:
                c['field'] = strs[0]['name']
                c['values'] = '1;2'          # numeric condition on a string field
                c['resolvable'] = False
            elif nums:
                c['field'] = nums[0]['name']
                c['values'] = "'ab'"         # string condition on a numeric field
                c['numeric'] = False
                c['resolvable'] = False
        if shape == 'unnamed':
            num = rng.random() < 0.6
            cand = nums if num else strs
            c['numeric'] = num
            c['values'] = ('1-5' if num else "'ab';'xy'")
            c['resolvable'] = len(cand) >= 1
            c['judge_eval'] = len(cand) == 1 and (num or len(fields) == 1)   # which of several fields is meant is not specified;
            # an unnamed string condition is compared with the text of the whole message, so only single-field messages are judged
            c['field'] = ''
            c['evalfield'] = cand[0]['name'] if cand else None
        if shape == 'missingmsg':
            c['msg'] = 'nomsg'
            c['values'] = '1'
            c['resolvable'] = False
        if shape == 'novalue':
            c['field'] = ''
            c['values'] = ''
        conds.append(c)
    return world, conds


def build_csv(world, conds, usable):
    lines = ['']
    cols = ['r', 'cc', 'ref', '', '', '08', 'b509', '0d01']
    for f in world['fields']:
        cols += [f['name'], '', f['type'], '', '', '']
    lines.append(','.join(cols))
    if world['fields2']:
        cols = ['r', 'cc', 'ref2', '', '', '08', 'b509', '0d02']
        for f in world['fields2']:
            cols += [f['name'], '', f['type'], '', '', '']
        lines.append(','.join(cols))
    if world['sibling']:
        lines.append('w,cc,ref,,,08,b509,0d81,w0,,UCH,,,')
    for c in conds:
        lines.append('*[%s],cc,%s,,%s,,%s' % (c['name'], c['msg'], c['field'], '"%s"' % c['values'] if ',' in c['values'] else c['values']))
    msgs = []
    for i, u in enumerate(usable):
        # u = list of condition indices (combined) or (index, derived values)
        typ = ''.join('[%s]' % x for x in u['conds'])
        lines.append('%sr,cc,m%d,,,08,b509,0e%02x,v,,UCH,,,' % (typ, i, i))
    return '\n'.join(lines) + '\n'


def cond_true(c, values_override, last):
    """reference predicate on the last stored field values (dict name -> raw int or str); None if nothing stored yet"""
    last = last.get(c['msg']) if last else None      # the values last stored for the message this condition refers to
    if last is None:
        return False
    if c['shape'] == 'novalue' and values_override is None:
        return True
    fname = c['field'] or c.get('evalfield')
    v = last.get(fname)
    spec = values_override if values_override is not None else c['values']
    if spec.startswith("'"):
        return any(v == s.strip("'") for s in spec.split(';'))
    if not isinstance(v, int):
        return False
    return any(lo <= v <= hi for lo, hi in parse_ranges(spec))


def shard(args):
    exe, seed, nhist, nsteps = args
    rng = random.Random(seed)
    stats = {'evaluations': 0, 'nontrivial': 0, 'queries': 0, 'resolve_checks': 0, 'same_second_changes': 0, 'same_second_changes_of_two_messages': 0, 'sibling_stores': 0, 'samples': [],
             'condition_shapes': {}}
    viol = []
    for h in range(nhist):
        world, conds = gen_world(rng)
        fields = world['fields']
        ssc0 = stats['same_second_changes']
        for c in conds:
            stats['condition_shapes'][c['shape']] = stats['condition_shapes'].get(c['shape'], 0) + 1
        # phase 1: resolution of each condition on its own (own map), so one failure does not hide another
        lines = []
        plan = []
        for ci, c in enumerate(conds):
            lines += ['NEW\tr%d\t0' % ci, 'LOAD\tr%d\t%s' % (ci, esc(build_csv(world, [c], [{'conds': [c['name']]}]))), 'RESOLVE\tr%d' % ci]
            plan += [None, ('load', ci), ('resolve', ci)]
        # phase 2: history on a map with the resolvable conditions only
        good = [c for c in conds if c['resolvable']]
        usable = []
        for c in good:
            usable.append({'conds': [c['name']], 'parts': [(c, None)], 'judge': c['judge_eval']})
            if c['numeric'] and c['shape'] in ('list', 'range', 'cmp', 'unnamed') and rng.random() < 0.5:
                dv = str(rng.randrange(0, 8))
                usable.append({'conds': ['%s=%s' % (c['name'], dv)], 'parts': [(c, dv)], 'judge': c['judge_eval']})
        if len(good) >= 2 and rng.random() < 0.7:
            a, b = rng.sample(good, 2)
            on2 = [x for x in good if x['msg'] == 'ref2']
            on1 = [x for x in good if x['msg'] == 'ref']
            if on1 and on2 and rng.random() < 0.7:
                a, b = rng.choice(on1), rng.choice(on2)       # parts on different referenced messages
                if rng.random() < 0.5:
                    a, b = b, a
            usable.append({'conds': [a['name'], b['name']], 'parts': [(a, None), (b, None)], 'judge': a['judge_eval'] and b['judge_eval']})
            if len(good) >= 3 and rng.random() < 0.3:
                x, y, z = rng.sample(good, 3)
                usable.append({'conds': [x['name'], y['name'], z['name']], 'parts': [(x, None), (y, None), (z, None)],
                               'judge': x['judge_eval'] and y['judge_eval'] and z['judge_eval']})
        lines += ['TIME\t1700000000', 'NEW\th\t0', 'LOAD\th\t' + esc(build_csv(world, good, usable)), 'RESOLVE\th']
        plan += [None, None, ('hload',), ('hresolve',)]
        now = 1700000000
        last = {'ref': None, 'ref2': None}
        last_data = {'ref': None, 'ref2': None}
        prev_change_time = {'ref': None, 'ref2': None}
        any_store = False
        cross_all = [k for k, u in enumerate(usable) if len({c['msg'] for c, _ in u['parts']}) >= 2]
        forced = []
        for s in range(nsteps):
            if not forced and cross_all and rng.random() < 0.12:
                # both referenced messages change within one second and the combination is asked in between and afterwards
                k = rng.choice(cross_all)
                order = rng.sample(['ref', 'ref2'], 2)
                forced = [('store', order[0], rng.choice([1, 2])), ('query', k, 0), ('store', order[1], 0), ('query', k, 0)]
            f0 = forced.pop(0) if forced else None
            if (f0 and f0[0] == 'store') or (not f0 and rng.random() < 0.6):
                now += f0[2] if f0 else rng.choice([0, 0, 0, 1, 2, 60])
                lines.append('TIME\t%d' % now)
                plan.append(None)
                target = 'ref'
                x = rng.random()
                if f0:
                    target = f0[1]
                elif world['fields2'] and x < 0.4:
                    target = 'ref2'
                elif world['sibling'] and x > 0.8:
                    # the write sibling of the referenced message is seen on the bus: the same-named messages are invalidated (as BusHandler
                    # does for every telegram), the value of the read message and what was seen of it stay
                    lines.append('STOREI\th\tcc\tref\t1\t0\tff08b509030d81%02x\t00' % rng.randrange(256))
                    plan.append(('wstore', now))
                    stats['sibling_stores'] += 1
                    continue
                vals = {}
                data = b''
                for f in (fields if target == 'ref' else world['fields2']):
                    if f['kind'] == 'u8':
                        v = rng.choice([rng.randrange(0, 12), rng.randrange(0, 12), rng.randrange(0, 200)])
                        data += bytes([v])
                    elif f['kind'] == 'u16':
                        v = rng.choice([rng.randrange(0, 12), rng.randrange(0, 12), rng.randrange(0, 60000)])
                        data += bytes([v & 0xff, v >> 8])
                    elif f['kind'] == 'bit':
                        if f['lead']:
                            bitbyte = rng.randrange(256)
                            data += bytes([bitbyte])
                        v = (bitbyte >> f['first']) & ((1 << f['nbits']) - 1)
                    else:
                        v = rng.choice(['ab', 'cd', 'xy', 'zz', 'qq'])
                        data += v.encode().ljust(2, b' ')
                    vals[f['name']] = v
                changed = last_data[target] != data      # what the message stores and compares are the raw bytes (unused bits included)
                last_data[target] = data
                if changed and prev_change_time[target] == now:
                    stats['same_second_changes'] += 1
                if changed and target == 'ref2' and prev_change_time['ref'] == now or changed and target == 'ref' and prev_change_time['ref2'] == now:
                    stats['same_second_changes_of_two_messages'] += 1
                if changed:
                    prev_change_time[target] = now
                last[target] = vals
                lines.append('%s\th\tcc\t%s\t0\t0\tff08b509020d%s\t%02x%s' % ('STOREI' if rng.random() < 0.5 else 'STORE', target, '01' if target == 'ref' else '02', len(data), data.hex()))
                plan.append(('store', target, dict(vals), now, changed))
            else:
                now += f0[2] if f0 else rng.choice([0, 0, 1])
                lines.append('TIME\t%d' % now)
                plan.append(None)
                i = rng.randrange(len(usable)) if usable else None
                if i is None:
                    continue
                if f0:
                    i = f0[1]
                elif cross_all and rng.random() < 0.3:
                    i = rng.choice(cross_all)         # a combination over different referenced messages
                snap = {k: (None if v is None else dict(v)) for k, v in last.items()}
                if rng.random() < 0.7:
                    lines.append('AVAIL\th\tcc\tm%d\t0\t0' % i)
                    plan.append(('avail', i, snap, now))
                else:
                    lines.append('FIND\th\tff08b509020e%02x\t0\t1\t1\t1\t1' % i)
                    plan.append(('find', i, snap, now))
        rc, outl, err = run_server(exe, lines)
        if rc != 0 or len(outl) != len(lines):
            return stats, viol + ([('harness', 'cond shard rc=%s lines=%d/%d' % (rc, len(outl), len(lines)))] if rc == 0 else []), (rc, err) if rc else None
        stats['evaluations'] += 1
        hist_ok = True
        trace = []
        change_times = {'ref': [], 'ref2': []}
        for pl, o, l in zip(plan, outl, lines):
            if pl is None:
                continue
            if pl[0] == 'load':
                if o[1] != '0':
                    viol.append(('definition-rejected', 'condition file rejected: %s %s' % (o[1], unesc(o[3]) if len(o) > 3 else '')))
                continue
            if pl[0] == 'resolve':
                c = conds[pl[1]]
                stats['resolve_checks'] += 1
                ok = o[1] == '0'
                fdesc = ', '.join('%s:%s' % (f['name'], f['type']) for f in fields)
                if ok != c['resolvable']:
                    viol.append(('resolve-%s:%s' % ('fails' if c['resolvable'] else 'succeeds', c['shape']),
                                 'condition [%s] on message %s field %r values %r with referenced fields (%s): resolveConditions -> %s %s, expected %s' % (
                                     c['name'], c['msg'], c['field'], c['values'], fdesc, o[1], unesc(o[2]) if len(o) > 2 else '',
                                     'success' if c['resolvable'] else 'an error')))
                continue
            if pl[0] in ('hload', 'hresolve'):
                if o[1] != '0':
                    hist_ok = False
                continue
            if not hist_ok:
                continue
            if pl[0] == 'store':
                trace.append('t=%d store %s %s' % (pl[3] - 1700000000, pl[1], pl[2]))
                if pl[4]:
                    change_times[pl[1]].append(pl[3])
                continue
            if pl[0] == 'wstore':
                trace.append('t=%d write sibling of ref seen' % (pl[1] - 1700000000))
                continue
            i = pl[1]
            u = usable[i]
            lastv = pl[2]
            exp = all(cond_true(c, ov, lastv) for c, ov in u['parts'])
            if pl[0] == 'avail':
                got = o[1] == '1'
            else:
                got = unesc(o[1]).startswith('cc|m%d|' % i)
            stats['queries'] += 1
            trace.append('t=%d %s m%d %s -> %s' % (pl[3] - 1700000000, pl[0], i, ''.join('[%s]' % x for x in u['conds']), got))
            if not u['judge']:
                continue
            if got != exp:
                cdesc = ' '.join('[%s: %s.%s %s %s]' % (x, c['msg'], c['field'] or '(first)', 'in' if c['values'] else 'seen', ov if ov is not None else c['values'])
                                 for x, (c, ov) in zip(u['conds'], u['parts']))
                # two value changes of one referenced message carrying the same one-second timestamp: the known staleness of
                # SimpleCondition::isTrue (per referenced message: changes of two different messages in one second are not affected)
                same_sec = any(len(ct) >= 2 and ct.count(ct[-1]) >= 2 for ct in (change_times[c['msg']] for c, _ in u['parts'] if c['msg'] in change_times))
                viol.append(('availability-stale:two-changes-in-one-second' if same_sec else 'availability-wrong',
                             'conditions %s; last stored values %s; isAvailable/find says %s, expected %s; history tail: %s' % (
                                 cdesc, lastv, got, exp, ' | '.join(trace[-7:]))))
                hist_ok = False   # one report per history
        if stats['same_second_changes'] > ssc0 and usable:
            stats['nontrivial'] += 1
        if len(stats['samples']) < 1:
            stats['samples'].append({'definition': build_csv(world, good, usable).split('\n')[1:6], 'history_tail': trace[-5:]})
    return stats, viol[:60], None


def main():
    c = Check('C13')
    exe = build_msg_server()
    nsh = 32
    nhist, nsteps = (6000, 30) if c.thorough else (63, 30)
    tot = pool_run(c, shard, [(exe, c.seed * 1000 + i, nhist, nsteps) for i in range(nsh)])
    c.coverage.update({
        'evaluations': int(tot.get('evaluations', 0)),
        'distinct_nontrivial': int(tot.get('nontrivial', 0)),
        'rule': 'worlds = referenced message with 1..4 fields (UCH/UIN/STR/bit pairs BI0:1+BI1:2 or BI0:1+BI6:2, the latter ending at bit 7 so that another bit group may follow in the next byte), in half of the worlds a second referenced message and in 40%% a '
                'same-named write sibling whose telegrams invalidate the cached state (MessageMap::invalidateCache as in BusHandler) + 1..5 conditions of shapes list/range/<,>,<=,>=/string list/'
                'no value/unnamed field/missing field/wrong kind/missing message + conditional messages (single, on-the-fly derived [c=v], '
                'combined [a][b]); histories of 30 steps: storeLastData of random values (60%%) or isAvailable()/find(master) queries, clock steps '
                'from {0,0,0,1,2,60} s. non-trivial = history (distinct PRNG stream) with >=2 value changes inside one virtual second and at least one resolvable condition',
        'availability_queries': int(tot.get('queries', 0)), 'resolve_checks': int(tot.get('resolve_checks', 0)),
        'same_second_value_changes': int(tot.get('same_second_changes', 0)),
        'same_second_changes_of_two_referenced_messages': int(tot.get('same_second_changes_of_two_messages', 0)),
        'write_sibling_telegrams_between_queries': int(tot.get('sibling_stores', 0)), 'condition_shapes': tot.get('condition_shapes', {}),
        'samples': tot.get('samples', []),
    })
    c.assumptions += ['numeric conditions compare the raw (unscaled) field value; replacement values are not stored',
                      'for an unnamed field the evaluation is only judged when exactly one field of the required kind exists',
                      'before the first stored data every condition (also value-less ones) is false']
    c.finish(floor_nontrivial=100)


if __name__ == '__main__':
    guarded_main(main)
