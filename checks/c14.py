#!/usr/bin/env python3
"""C14: adapter framing is decoded exactly and independently of read chunking (EnhancedDevice + FileTransport on the
virtual descriptor) -- see harness/enh_driver.cpp."""
import os, sys
sys.path.insert(0, os.path.join(os.path.dirname(os.path.abspath(__file__)), '..', 'bin'))
from vlib import *


def main():
    c = Check('C14')
    exe = build_harness('asan', 'enh_driver', ['enh_driver.cpp', 'vbus.cpp'], wraps=WRAPS_BUS)
    ln = 5 if c.thorough else 4
    shards = 16
    cmds = [[exe, 'mode=requests'], [exe, 'mode=syncount']]
    cmds += [[exe, 'mode=exh', 'len=%d' % ln, 'shard=%d' % i, 'shards=%d' % shards] for i in range(shards)]
    cmds += [[exe, 'mode=transport', 'seed=%d' % (c.seed * 100 + i), 'n=%d' % (20000 if c.thorough else 1500)] for i in range(4)]
    cmds += [[exe, 'mode=random', 'seed=%d' % (c.seed * 100 + 50 + i), 'n=%d' % (6000 if c.thorough else 150)] for i in range(12)]
    res = run_shards(cmds, timeout=3000 if c.thorough else 900)
    c.add_result(res)
    tot = merge_stats(res.stats)
    c.coverage.update({
        'evaluations': int(tot.get('evaluations', 0)),
        'distinct_nontrivial': int(tot.get('distinct_nontrivial', 0)),
        'rule': 'exhaustive: every adapter stream of length 1..%d over a 15 symbol alphabet (plain bytes; first bytes of RECEIVED, STARTED, '
                'FAILED, INFO, RESETTED, ERROR_EBUS, ERROR_HOST and an undefined command; valid second bytes) under EVERY partition into read '
                'chunks, passive and with a running arbitration; random long streams (up to 1200 bytes, several segments with host actions in '
                'between) under 7 chunkings; all 3x256 request encodings; random FileTransport read/readConsumed histories. '
                'non-trivial = stream containing at least one byte >= 0x80 (streams enumerated once)' % ln,
        'exhaustive': True, 'recv_calls_observed': int(tot.get('recv_calls', 0)), 'requests_checked': int(tot.get('requests_checked', 0)),
        'transport_histories': int(tot.get('transport_cases', 0)), 'transport_overflows_seen': int(tot.get('overflows', 0)),
        'samples': tot.get('samples', []),
    })
    c.assumptions += ['the reference decoder is written from docs/enhanced_proto.md; a dangling first byte loses itself and the byte after it',
                      'arbitration states other than won/lost are compared between chunkings only, not with the reference']
    c.finish(floor_nontrivial=10000)


if __name__ == '__main__':
    guarded_main(main)
