#!/usr/bin/env python3
"""C09: building, storing and decoding a message agree, including chained messages. Generated active definitions are
loaded by the real loader; prepareMaster output is checked for header/NN/ID, looked up again with find(), stored
together with a prepared slave answer and decoded; chains are prepared part by part, stored in every arrival order
(active path by index and passive path by telegram) and must re-join to the defined byte order."""
import os, sys, random, itertools
sys.path.insert(0, os.path.dirname(os.path.abspath(__file__)))
from msg_common import *
from c10 import FULL

SLAVES = [0x08, 0x15, 0x25, 0x52]


def gen_plain(rng, i):
    typ = rng.choice(['r', 'w'])
    idb = bytes(rng.randrange(256) for _ in range(rng.choice([0, 1, 2, 2, 3, 3, 4, 4, 5, 6, 7])))
    nm = rng.randrange(0, 4)
    ns = rng.randrange(0, 4) if typ == 'r' else 0
    zzk = rng.random()
    zz = '%02x' % rng.choice(SLAVES) if zzk < 0.75 else ('fe' if zzk < 0.85 else '%02x' % rng.choice(MASTERS[:5]))
    if zz == 'fe' or int(zz, 16) in MASTERS:
        ns = 0
    fields = []
    for k in range(nm + ns):
        t, nb, vals = rng.choice(FULL)
        part = 'm' if k < nm else 's'
        fields.append({'name': 'f%d' % k, 'part': part, 'type': t, 'nbytes': nb, 'values': [v for v in vals if not v.startswith('-') or v[1:2].isdigit()]})
    return {'kind': 'plain', 'type': typ, 'circuit': 'cc', 'name': 'n%d' % i, 'zz': zz, 'pbsb': rng.choice(['b509', 'b505', 'b511']), 'id': idb,
            'fields': fields}


def plain_line(d):
    cols = [d['type'], d['circuit'], d['name'], '', '', d['zz'], d['pbsb'], d['id'].hex()]
    for f in d['fields']:
        cols += [f['name'], f['part'], f['type'], '', '', '']
    return ','.join(cols)


def gen_chain(rng, i):
    typ = rng.choice(['r', 'w'])
    nparts = rng.randrange(2, 5)
    prefix = bytes(rng.randrange(256) for _ in range(rng.randrange(0, 3)))
    suff = rng.sample(range(256), nparts)
    tail = bytes(rng.randrange(256) for _ in range(rng.choice([0, 0, 1, 2])))    # the parts may differ in a byte that is not the last one
    ids = [prefix + bytes([s]) + tail for s in suff]
    lens = [rng.randrange(1, 6) for _ in range(nparts)]
    explicit = rng.random() < 0.7 or typ == 'w'   # write chains need explicit part lengths
    total = sum(lens)
    if total > 20:
        lens = [min(l, 3) for l in lens]
        total = sum(lens)
    return {'kind': 'chain', 'type': typ, 'circuit': 'cc', 'name': 'ch%d' % i, 'zz': '%02x' % rng.choice(SLAVES), 'pbsb': rng.choice(['b509', 'b505']),
            'ids': ids, 'lens': lens, 'explicit': explicit, 'total': total}


def chain_line(d):
    if d['explicit']:
        ids = ';'.join('%s:%d' % (i.hex(), l) for i, l in zip(d['ids'], d['lens']))
    else:
        ids = ';'.join(i.hex() for i in d['ids'])
    return '%s,%s,%s,,,%s,%s,%s,x,,HEX:%d,,,' % (d['type'], d['circuit'], d['name'], d['zz'], d['pbsb'], ids, d['total'])


def shard(args):
    exe, seed, ndefs = args
    rng = random.Random(seed)
    stats = {'evaluations': 0, 'nontrivial': 0, 'plain_defs': 0, 'chain_defs': 0, 'arrival_orders': 0, 'oversize_rejected': 0, 'loader_rejected': 0,
             'samples': []}
    viol = []
    for di in range(ndefs):
        chain = rng.random() < 0.4
        d = gen_chain(rng, di) if chain else gen_plain(rng, di)
        qq = rng.choice(MASTERS)
        now = 1700000000 + di * 1000
        lines = ['TIME\t%d' % now, 'NEW\tm\t0']
        line = chain_line(d) if chain else plain_line(d)
        # a neighbour definition with the same PBSB/ZZ and another, longer id keeps find() honest (keys of long ids are folded,
        # and the probing starts at the longest id length in the map)
        nbline = ''
        if not chain and rng.random() < 0.7:
            nid = (bytes([d['id'][0] ^ 0x5a]) if d['id'] else b'') + bytes(rng.randrange(256) for _ in range(rng.randrange(4, 7)))
            npbsb = d['pbsb'] if d['id'] else 'b5aa'
            nzz = '08' if d['zz'] == 'fe' else d['zz']      # (a broadcast definition next to a longer non-broadcast one)
            nbline = '%s,cc,nb,,,%s,%s,%s,x,,UCH' % (d['type'], nzz, npbsb, nid.hex())
        # either load order
        both = ('\n' + line + '\n' + nbline + '\n') if (not nbline or rng.random() < 0.5) else ('\n' + nbline + '\n' + line + '\n')
        lines.append('LOAD\tm\t' + esc(both))
        if not chain:
            mvals = [rng.choice(f['values']) for f in d['fields'] if f['part'] == 'm']
            svals = [rng.choice(f['values']) for f in d['fields'] if f['part'] == 's']
            zz = d['zz']
            lines.append('PREP\tm\tcc\t%s\t%d\t0\t%02x\t\t%s' % (d['name'], d['type'] == 'w', qq, esc(';'.join(mvals))))
            if d['type'] == 'r':
                lines.append('PREPS\tm\tcc\t%s\t0\t%s' % (d['name'], esc(';'.join(svals))))
            rc, outl, err = run_server(exe, lines)
            if rc != 0:
                return stats, viol, (rc, err)
            lo = outl[2]
            mlen = len(d['id']) + sum(f['nbytes'] for f in d['fields'] if f['part'] == 'm')
            slen = sum(f['nbytes'] for f in d['fields'] if f['part'] == 's')
            too_long = mlen > 24 or slen > 24
            if lo[1] != '0':
                if too_long:
                    stats['oversize_rejected'] += 1
                else:
                    stats['loader_rejected'] += 1
                continue
            if too_long:
                viol.append(('oversize-definition-loaded', 'definition %r (master %d, slave %d data bytes) was accepted' % (line, mlen, slen)))
                continue
            stats['plain_defs'] += 1
            stats['evaluations'] += 1
            po = outl[3]
            if po[1] != '0':
                viol.append(('prepare-fails', '%r inputs %r -> %s' % (line, mvals, po[1])))
                continue
            m = bytes.fromhex(po[2])
            want_head = bytes([qq, int(zz, 16)]) + bytes.fromhex(d['pbsb'])
            if m[:4] != want_head:
                viol.append(('header', '%r -> %s, expected header %s' % (line, m.hex(), want_head.hex())))
                continue
            if len(m) < 5 or m[4] != len(m) - 5:
                viol.append(('nn-wrong', '%r inputs %r -> %s: NN=%d but %d bytes follow' % (line, mvals, m.hex(), m[4] if len(m) > 4 else -1, len(m) - 5)))
                continue
            if m[5:5 + len(d['id'])] != d['id'] or m[4] != mlen:
                viol.append(('id-or-length', '%r -> %s: expected id %s and NN %d' % (line, m.hex(), d['id'].hex(), mlen)))
                continue
            s = b'\x00'
            if d['type'] == 'r':
                so = outl[4]
                if so[1] != '0':
                    viol.append(('prepare-slave-fails', '%r inputs %r -> %s' % (line, svals, so[1])))
                    continue
                s = bytes.fromhex(so[2])
                if s[0] != len(s) - 1 or s[0] != slen:
                    viol.append(('slave-nn-wrong', '%r -> slave %s expected NN %d' % (line, s.hex(), slen)))
                    continue
            # second batch: fresh map (nothing cached), find + store via the passive path + decode
            lines2 = ['TIME\t%d' % now, 'NEW\tm\t0', 'LOAD\tm\t' + esc(both),
                      'FIND\tm\t%s\t0\t1\t1\t1\t1' % m.hex(), 'STOREM\tm\t%s\t%s' % (m.hex(), s.hex()),
                      'DECODE\tm\tcc\t%s\t%d\t0\t0' % (d['name'], d['type'] == 'w')]
            rc, out2, err = run_server(exe, lines2)
            if rc != 0:
                return stats, viol, (rc, err)
            fo, st, de = out2[3], out2[4], out2[5]
            if not unesc(fo[1]).startswith('cc|%s|%s|' % (d['name'], d['type'])):
                viol.append(('not-identified', '%r: prepared telegram %s is looked up as %s' % (line, m.hex(), unesc(fo[1]))))
                continue
            if int(st[1]) < 0:
                viol.append(('store-fails', '%r: storeLastData(%s, %s) -> %s' % (line, m.hex(), s.hex(), st[1])))
                continue
            want = ';'.join(mvals + svals)
            got = unesc(de[2]) if len(de) > 2 else ''
            if d['fields']:
                if de[1] != '0' or got != want:
                    viol.append(('decode-differs', '%r: inputs %r + %r, telegram %s / %s decodes to %s %r' % (line, mvals, svals, m.hex(), s.hex(), de[1], got)))
                    continue
            if len(d['fields']) >= 2:
                stats['nontrivial'] += 1
            if len(stats['samples']) < 1:
                stats['samples'].append({'definition': line, 'inputs': mvals + svals, 'master': m.hex(), 'slave': s.hex()})
            continue
        # ---- chained ---------------------------------------------------------------------------------
        payload = bytes(rng.randrange(256) for _ in range(d['total']))
        n = len(d['ids'])
        text = ' '.join('%02x' % b for b in payload)
        for i in range(n):
            lines.append('PREP\tm\tcc\t%s\t%d\t%d\t%02x\t\t%s' % (d['name'], d['type'] == 'w', i, qq, esc(text if d['type'] == 'w' else '')))
        rc, outl, err = run_server(exe, lines)
        if rc != 0:
            return stats, viol, (rc, err)
        if outl[2][1] != '0':
            stats['loader_rejected'] += 1
            continue
        stats['chain_defs'] += 1
        stats['evaluations'] += 1
        masters = []
        bad = False
        off = 0
        for i in range(n):
            po = outl[3 + i]
            if po[1] != '0':
                viol.append(('prepare-part-fails', '%r part %d -> %s' % (line, i, po[1])))
                bad = True
                break
            m = bytes.fromhex(po[2])
            head = bytes([qq, int(d['zz'], 16)]) + bytes.fromhex(d['pbsb'])
            exp_data = d['ids'][i] + (payload[off:off + d['lens'][i]] if d['type'] == 'w' else b'')
            if d['type'] == 'w' and not d['explicit']:
                exp_data = None     # implicit lengths: split positions are not defined by the definition, only re-joining is judged
            off += d['lens'][i]
            if m[:4] != head or m[4] != len(m) - 5 or m[5:5 + len(d['ids'][i])] != d['ids'][i] or (exp_data is not None and m[5:] != exp_data):
                viol.append(('chain-part-telegram', '%r payload %s part %d -> %s, expected %s %s' % (
                    line, payload.hex(), i, m.hex(), head.hex(), exp_data.hex() if exp_data is not None else d['ids'][i].hex() + '..')))
                bad = True
                break
            masters.append(m)
        if bad:
            continue
        if d['type'] == 'w':
            if d['explicit']:
                joined = b''.join(m[5 + len(d['ids'][i]):] for i, m in enumerate(masters))
                if joined != payload:
                    viol.append(('chain-split', '%r payload %s is split into %s' % (line, payload.hex(), [m.hex() for m in masters])))
                    continue
            else:
                continue
        # slave parts for read chains
        if d['type'] == 'r':
            sl = []
            off = 0
            for i in range(n):
                sl.append(bytes([d['lens'][i]]) + payload[off:off + d['lens'][i]])
                off += d['lens'][i]
        else:
            sl = [b'\x00'] * n
        orders = [list(range(n)), list(range(n))[::-1]]
        perm = list(range(n))
        rng.shuffle(perm)
        orders.append(perm)
        for oi, order in enumerate(orders):
            for path in ('passive', 'index'):
                lines2 = ['TIME\t%d' % now, 'NEW\tm\t0', 'LOAD\tm\t' + esc('\n' + line + '\n')]
                t = now
                for i in order:
                    t += rng.choice([0, 1, 3])
                    lines2.append('TIME\t%d' % t)
                    if path == 'passive':
                        lines2.append('STOREM\tm\t%s\t%s' % (masters[i].hex(), sl[i].hex()))
                    else:
                        lines2.append('STOREP\tm\tcc\t%s\t%d\t%d\t%s\t%s' % (d['name'], d['type'] == 'w', i, masters[i].hex(), sl[i].hex()))
                lines2.append('DECODE\tm\tcc\t%s\t%d\t0\t0' % (d['name'], d['type'] == 'w'))
                first_decode_at = len(lines2) - 1
                # a second read cycle into the same (now cached) chain: some parts carry new data, at least one is unchanged,
                # again in any order and possibly much later; the decoded value must follow
                text2 = None
                if d['type'] == 'r':
                    keep = rng.randrange(n)
                    payload2 = bytearray(payload)
                    off2 = 0
                    for i in range(n):
                        if i != keep and rng.random() < 0.8:
                            for k in range(off2, off2 + d['lens'][i]):
                                payload2[k] ^= 0x5a
                        off2 += d['lens'][i]
                    sl2, off2 = [], 0
                    for i in range(n):
                        sl2.append(bytes([d['lens'][i]]) + bytes(payload2[off2:off2 + d['lens'][i]]))
                        off2 += d['lens'][i]
                    order2 = list(range(n))
                    rng.shuffle(order2)
                    t += rng.choice([1, 5, 60, 600])
                    for i in order2:
                        t += rng.choice([0, 1, 3])
                        lines2.append('TIME\t%d' % t)
                        if path == 'passive':
                            lines2.append('STOREM\tm\t%s\t%s' % (masters[i].hex(), sl2[i].hex()))
                        else:
                            lines2.append('STOREP\tm\tcc\t%s\t%d\t%d\t%s\t%s' % (d['name'], 0, i, masters[i].hex(), sl2[i].hex()))
                    lines2.append('DECODE\tm\tcc\t%s\t0\t0\t0' % d['name'])
                    text2 = ' '.join('%02x' % b for b in payload2)
                rc, out2, err = run_server(exe, lines2)
                if rc != 0:
                    return stats, viol, (rc, err)
                if text2 is not None:
                    de2 = out2[-1]
                    got2 = unesc(de2[2]) if len(de2) > 2 else ''
                    stats['second_cycles'] = stats.get('second_cycles', 0) + 1
                    if de2[1] != '0' or got2 != text2:
                        viol.append(('chain-rejoin-second-cycle', '%r first payload %s, second payload %s (part %d unchanged) stored via %s path in order %s after order %s -> decode %s %r' % (
                            line, payload.hex(), bytes(payload2).hex(), keep, path, order2, order, de2[1], got2)))
                        break
                de = out2[first_decode_at]
                stats['arrival_orders'] += 1
                got = unesc(de[2]) if len(de) > 2 else ''
                if de[1] != '0' or got != text:
                    viol.append(('chain-rejoin', '%r payload %s, parts stored via %s path in order %s -> decode %s %r (master %s slave %s)' % (
                        line, payload.hex(), path, order, de[1], got, de[3] if len(de) > 3 else '', de[4] if len(de) > 4 else '')))
                    break
        stats['nontrivial'] += 1
    return stats, viol[:40], None


# ---- the supported maximum: definitions around the limit, with bit fields sharing bytes --------------------------------
WHOLE = [('UCH', 1), ('D2C', 2), ('UIN', 2), ('ULG', 4), ('BDA', 4), ('BTI', 3), ('D1C', 1), ('HEX:5', 5), ('STR:7', 7), ('STR:3', 3), ('HEX:2', 2)]


def limit_shard(args):
    exe, seed, n = args
    rng = random.Random(seed)
    stats = {'evaluations': 0, 'nontrivial': 0, 'limit_definitions': 0, 'limit_rejected': 0, 'limit_accepted': 0, 'samples': []}
    viol, lines, plan = [], [], []
    for k in range(n):
        wr = rng.random() < 0.5
        idlen = rng.randrange(0, 5)
        target = rng.choice([22, 23, 24, 24, 25, 25, 26, 27])       # bytes that count against the limit (ID + master data / slave data)
        need = target - (idlen if wr else 0)
        fields, total, fno = [], 0, 0
        lastbits = False
        while total < need:
            rest = need - total
            if rng.random() < 0.4 and not lastbits:      # (two adjacent groups could legitimately share a byte: not generated)
                lastbits = True
                # a group of bit fields with ascending, non-overlapping bits: one byte
                bit, grp = 0, []
                for _ in range(rng.randrange(1, 5)):
                    if bit > 7:
                        break
                    nb = rng.randrange(1, min(3, 8 - bit) + 1)
                    first = bit + (rng.randrange(0, 2) if bit + nb < 8 else 0)
                    grp.append('BI%d:%d' % (first, nb) if not (first == 7) else 'BI7')
                    bit = first + nb
                for g in grp:
                    fields.append('f%d,,%s,,,' % (fno, g)); fno += 1
                total += 1
            else:
                lastbits = False
                cand = [w for w in WHOLE if w[1] <= rest]
                typ, nbytes = rng.choice(cand)
                fields.append('f%d,,%s,,,' % (fno, typ)); fno += 1
                total += nbytes
        ident = ''.join('%02x' % rng.randrange(256) for _ in range(idlen))
        line = '%s,lc,l%d,,,08,b509,%s,%s' % ('w' if wr else 'r', k, ident, ','.join(fields))
        mp = 'lim%d' % k
        lines += ['NEW\t%s\t0' % mp, 'LOAD\t%s\t%s' % (mp, esc('#\n' + line + '\n')), 'DEL\t' + mp]
        plan += [None, (line, target, wr), None]
    rc, out, err = run_server(exe, lines)
    if rc != 0 or len(out) != len(plan):
        return stats, viol, (rc if rc else -1, 'msg_server output lines %d != expected %d\n' % (len(out), len(plan)) + err[-4000:])
    for pl, f in zip(plan, out):
        if pl is None:
            continue
        line, target, wr = pl
        stats['evaluations'] += 1; stats['limit_definitions'] += 1; stats['nontrivial'] += 1 if 'BI' in line else 0
        ok = f[1] == '0' and f[2] == '1'
        stats['limit_accepted' if ok else 'limit_rejected'] += 1
        if ok and target > 24:
            viol.append(('oversize-definition-accepted', "'%s' needs %d bytes (%s) but was loaded" % (line, target, 'ID + master data' if wr else 'slave data')))
        elif not ok and target <= 24:
            viol.append(('definition-within-limit-rejected', "'%s' needs %d bytes but was rejected: %s %s" % (line, target, f[1], unesc(f[3]) if len(f) > 3 else '')))
        elif len(stats['samples']) < 1 and not ok:
            stats['samples'].append("'%s' (%d bytes) rejected with %s" % (line, target, f[1]))
    return stats, viol[:30], None


def main():
    c = Check('C09')
    exe = build_msg_server()
    nsh = 32
    ndefs = 3000 if c.thorough else 50
    tot = pool_run(c, shard, [(exe, c.seed * 1000 + i, ndefs) for i in range(nsh)])
    tot2 = pool_run(c, limit_shard, [(exe, c.seed * 1000 + 700 + i, 2000 if c.thorough else 120) for i in range(8)])
    for k in ('evaluations', 'nontrivial'):
        tot[k] = tot.get(k, 0) + tot2.get(k, 0)
    c.coverage.update({
        'evaluations': int(tot.get('evaluations', 0)),
        'distinct_nontrivial': int(tot.get('nontrivial', 0)),
        'rule': 'generated active definitions: plain r/w with 0..3 master and 0..3 slave fields over all base types, ID 0..4 bytes, ZZ slave/'
                'master/broadcast, and chains of 2..4 parts (explicit or implicit lengths, r/w, HEX payload); per definition: prepareMaster '
                '(every part), header/NN/ID check, find() on the produced telegram in a fresh map, prepareSlave, storeLastData, decodeLastData; '
                'chains stored in 3 arrival orders on the active (by index) and passive (by telegram) path. non-trivial = plain definition '
                'with >=2 fields, or any chain; plus definitions built to need 22..27 bytes (whole-byte fields and groups of bit fields sharing a byte, '
                'ID 0..4 bytes, r/w): loaded iff the need is <= 24',
        'plain_definitions': int(tot.get('plain_defs', 0)), 'chained_definitions': int(tot.get('chain_defs', 0)),
        'chain_arrival_orders': int(tot.get('arrival_orders', 0)), 'oversize_definitions_rejected': int(tot.get('oversize_rejected', 0)),
        'other_definitions_rejected_by_loader': int(tot.get('loader_rejected', 0)),
        'limit_definitions': int(tot2.get('limit_definitions', 0)), 'limit_accepted': int(tot2.get('limit_accepted', 0)), 'limit_rejected': int(tot2.get('limit_rejected', 0)),
        'samples': tot.get('samples', []),
    })
    c.assumptions += ['supported maximum: ID (without PBSB) + master data <= 24 bytes and slave data <= 24 bytes (MAX_POS)',
                      'field values come from a catalog of canonical texts, so decode must return them literally',
                      'write chains with implicit part lengths: only header/ID of the parts are judged (split positions undefined)']
    c.finish(floor_nontrivial=200)


if __name__ == '__main__':
    guarded_main(main)
