"""shared runner for the active bus checks C02/C03 (harness/bus_driver.cpp modes c02, c03)"""
import os, sys
sys.path.insert(0, os.path.join(os.path.dirname(os.path.abspath(__file__)), '..', 'bin'))
from vlib import *


def run_active(pid, prefix, rule, assumptions, floor):
    c = Check(pid)
    exe = build_harness('asan', 'bus_driver', ['bus_driver.cpp', 'vbus.cpp'], wraps=WRAPS_BUS)
    n = 120000 if c.thorough else 1000
    cmds = []
    for mode in ('c02', 'c03'):
        cmds += [[exe, 'mode=%s' % mode, 'filter=%s' % prefix, 'seed=%d' % (c.seed * 100 + i), 'n=%d' % n] for i in range(16)]
    res = run_shards(cmds, timeout=3000 if c.thorough else 900)
    c.add_result(res)
    tot = merge_stats(res.stats)
    c.coverage.update({
        'evaluations': int(tot.get('evaluations', 0)),
        'distinct_nontrivial': int(tot.get('distinct_nontrivial', 0)),
        'rule': rule,
        'bus_bytes': int(tot.get('bus_bytes', 0)), 'host_bytes_on_bus': int(tot.get('host_bytes', 0)),
        'own_exchanges': int(tot.get('exchanges', 0)), 'arbitrations_lost': int(tot.get('arbitrations_lost', 0)),
        'adverse_events': int(tot.get('adverse_events', 0)), 'readonly_histories': int(tot.get('readonly_histories', 0)),
        'handler_loop_iterations': int(tot.get('steps', 0)), 'request_results': tot.get('request_results', {}),
        'syns_delivered_together_with_following_symbols': int(tot.get('syn_glued_with_following_symbols', 0)),
        'command_echo_delivered_together_with_the_reaction': int(tot.get('echo_glued_with_reaction', 0)),
        'stray_symbols_right_behind_the_own_address': int(tot.get('stray_symbol_behind_own_address', 0)),
        'arbitration_writes_swallowed_without_echo': int(tot.get('swallowed_arbitration_writes', 0)),
        'alarms_of_other_properties_ignored_here': int(tot.get('other_property_alarms', 0)),
        'samples': tot.get('samples', []),
    })
    c.assumptions += assumptions
    c.finish(floor_nontrivial=floor)
