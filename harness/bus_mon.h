// Monitors over the interleaved bus log for C02 (wire format + truthful result), C03 (entitlement) and C15 (answers).
// Written from the property statements; they only see: the bus log with origin tags, the requests (content, submit
// and completion time, result), the registered answers and the configuration.
#ifndef VERIF_BUS_MON_H_
#define VERIF_BUS_MON_H_

#include "bus_sim.h"

namespace bsim {

struct ReqInfo {
  std::vector<uint8_t> master;     // QQ ZZ PB SB NN data
  int64_t submitted = 0, done = -1;
  int result = 2;                  // RESULT_EMPTY = not yet completed
  std::vector<uint8_t> slave;
  int notifications = 0;
  int exchanges = 0;               // filled by the monitor
  bool validSeen = false;          // filled by the monitor: a complete valid exchange for this request is on the wire
  std::vector<uint8_t> validSlave;
};

struct AnswerDef {                  // a registered answer (C15)
  uint8_t src; bool anySrc; uint8_t dst, pb, sb; std::vector<uint8_t> id; std::vector<uint8_t> resp;   // resp: NN data for slave dst; for master dst NN = tail length
};

struct MonConfig {
  uint8_t own; bool readOnly, generateSyn, enhanced, answer;
  std::vector<AnswerDef> answers;
  int64_t deliveryLag = SYM / 2;     // how long after it was on the wire a symbol may reach the host (grouped delivery: several symbol times)
};

class TxMonitor {
 public:
  std::vector<std::pair<std::string, std::string>> viol;   // key, detail
  long hostBytes = 0, arbitrations = 0, arbWon = 0, arbLost = 0, exchangesSeen = 0, autoSyns = 0, adverse = 0, answersSeen = 0, answersCompleted = 0;

  void add(const std::string& key, const std::string& detail) { if (viol.size() < 8) viol.push_back({key, detail}); }

  static std::string ctx(const std::vector<BusByte>& log, size_t i) {
    std::string s;
    size_t from = i > 24 ? i - 24 : 0;
    for (size_t k = from; k < log.size() && k < i + 6; k++) {
      if (k == i) s += "[";
      if (log[k].gapBefore) s += "~";
      s += vf::hex1(log[k].b);
      if (log[k].origin == 'H') s += "'"; else if (log[k].origin == 'X') s += "*(" + vf::hex1(log[k].hostWrote) + ")";
      if (k == i) s += "]";
    }
    return s;
  }

  /** the longest registered answer that matches a received master part (reference for C15) */
  static const AnswerDef* refAnswer(const MonConfig& cfg, const std::vector<uint8_t>& m) {
    const AnswerDef* best = nullptr;
    for (auto& a : cfg.answers) {
      if (a.dst != m[1] || a.pb != m[2] || a.sb != m[3]) continue;
      if (!a.anySrc && a.src != m[0]) continue;
      if (a.id.size() > m.size() - 5) continue;
      if (!std::equal(a.id.begin(), a.id.end(), m.begin() + 5)) continue;
      if (specIsMaster(a.dst) && a.id.size() + (a.resp.empty() ? 0 : a.resp[0]) != m[4]) continue;
      if (!best || a.id.size() > best->id.size() || (a.id.size() == best->id.size() && !a.anySrc && best->anySrc)) best = &a;
    }
    return best;
  }

  void run(const std::vector<BusByte>& log, std::vector<ReqInfo>& reqs, const MonConfig& cfg, const std::vector<DroppedWrite>* dropped = nullptr) {
    bool hostSilentUntilSyn = false;
    bool lastLossMissingEcho = false;
    size_t di = 0;
    bool hostIsGenerator = false;
    bool lostSinceOwn = false;
    int synsSinceLost = 0;
    int64_t lastActivity = log.empty() ? 0 : log[0].t;
    size_t i = 0;
    const size_t n = log.size();
    auto isHost = [&](size_t k) { return log[k].origin == 'H' || log[k].origin == 'X'; };
    while (i < n) {
      // symbols the host wrote that were swallowed before they reached the wire: judged like any other write, then a lost arbitration
      while (dropped && di < dropped->size() && (*dropped)[di].pos <= i) {
        const DroppedWrite& d = (*dropped)[di++];
        hostBytes++;
        std::string where = "swallowed write " + vf::hex1(d.b) + " before " + ctx(log, i);
        if (cfg.readOnly) { add("c03-readonly-transmits", where); continue; }
        if (hostSilentUntilSyn) add("c03-transmits-before-next-syn", where);
        else if (!(i > 0 && log[i - 1].b == 0xAA)) add("c03-transmits-not-after-syn", where);
        arbitrations++;
        bool pending = false;
        for (auto& r : reqs) if (!r.master.empty() && r.master[0] == d.b && r.submitted <= d.t && (r.done < 0 || r.done >= d.t - SYM)) pending = true;
        if (!pending) {
          bool drained = false;     // (sub-class as below: completed with "no signal" while the arbitration stayed armed in the device)
          for (auto& r : reqs) if (!r.master.empty() && r.master[0] == d.b && r.result == -23 && r.done >= 0 && r.done < d.t) drained = true;
          add(std::string("c03-arbitration-without-pending-request") + (drained ? ":armed-before-signal-loss" : ""), "address " + vf::hex1(d.b) + " " + where);
        }
        if (lostSinceOwn && synsSinceLost < 2) add(std::string("c03-arbitration-too-early-after-loss") + (lastLossMissingEcho ? ":after-missing-echo" : ""), std::to_string(synsSinceLost) + " SYN since the lost arbitration: " + where);
        arbLost++; adverse++;
        lostSinceOwn = true; synsSinceLost = 0; hostSilentUntilSyn = true; lastLossMissingEcho = true;
      }
      const BusByte& e = log[i];
      if (!isHost(i)) {
        if (e.b == 0xAA) { hostSilentUntilSyn = false; if (lostSinceOwn) synsSinceLost++; i++; continue; }
        // a foreign telegram may be addressed to the host (answer mode): follow it
        if (i > 0 && log[i - 1].b == 0xAA && e.origin == 'F' && !e.gapBefore) {
          size_t next = followForeign(log, i, cfg);
          if (next > i) { i = next; continue; }
        }
        i++;
        continue;
      }
      hostBytes++;
      if (cfg.readOnly) { add("c03-readonly-transmits", "host byte " + vf::hex1(e.hostWrote) + " at " + ctx(log, i)); i++; continue; }
      // host byte outside of an exchange: arbitration, AUTO-SYN or not entitled
      bool afterSyn = i > 0 && log[i - 1].b == 0xAA;
      if (e.hostWrote == 0xAA) {
        // AUTO-SYN: only with SYN generation enabled and after silence of at least the generation interval
        autoSyns++;
        // what the host could know when it decided: symbols of others that were on the wire less than the delivery lag before its
        // write had not been handed to it yet (two SYN generators firing at the same moment collide, that is nobody's fault)
        size_t seen = i;
        while (seen > 0 && !isHost(seen - 1) && log[seen - 1].t > e.t - SYM - cfg.deliveryLag) seen--;
        int64_t silence = (e.t - SYM) - (seen > 0 ? log[seen - 1].t : 0);
        // generation interval: 10 ms * master number of the own address + 51 ms until the host has become the generator, 40 ms afterwards
        int64_t need = hostIsGenerator ? 40 * MS : (int64_t)(10 * specMasterNumber(cfg.own) + 51) * MS;
        if (!cfg.generateSyn) add("c03-autosyn-not-enabled", ctx(log, i));
        else if (silence < need - 2 * MS) add("c03-autosyn-too-early", "silence " + std::to_string(silence / MS) + " ms (needs " + std::to_string(need / MS) + ") before " + ctx(log, i));
        if (e.b == 0xAA) {        // the SYN made it onto the bus: it counts like any other SYN
          hostIsGenerator = true;
          hostSilentUntilSyn = false;
          if (lostSinceOwn) synsSinceLost++;
        }
        i++;
        continue;
      }
      if (hostSilentUntilSyn) { add("c03-transmits-before-next-syn", "after a lost arbitration/echo mismatch/receive error: " + ctx(log, i)); i++; continue; }
      if (!afterSyn || log[i].gapBefore) { add("c03-transmits-not-after-syn", ctx(log, i)); i++; continue; }
      // arbitration attempt
      arbitrations++;
      ReqInfo* rq = nullptr;
      for (auto& r : reqs) if (!r.master.empty() && r.master[0] == e.hostWrote && r.submitted <= e.t && (r.done < 0 || r.done >= e.t - SYM)) { rq = &r; break; }
      if (!rq) {
        // sub-class: the request was completed with "no signal" while its arbitration was still armed in the device
        bool drained = false;
        for (auto& r : reqs) if (!r.master.empty() && r.master[0] == e.hostWrote && r.result == -23 && r.done >= 0 && r.done < e.t) drained = true;
        add(std::string("c03-arbitration-without-pending-request") + (drained ? ":armed-before-signal-loss" : ""), "address " + vf::hex1(e.hostWrote) + " at " + ctx(log, i));
      }
      // (after an address that was swallowed without any echo the handler does wait; the known finding is about losses it saw as a symbol)
      if (lostSinceOwn && synsSinceLost < 2) add(std::string("c03-arbitration-too-early-after-loss") + (lastLossMissingEcho ? ":after-missing-echo" : ""), std::to_string(synsSinceLost) + " SYN since the lost arbitration: " + ctx(log, i));
      if (e.b != e.hostWrote) {         // lost (collision result differs from what the host wrote)
        arbLost++; adverse++;
        lostSinceOwn = true; synsSinceLost = 0; hostSilentUntilSyn = true; lastLossMissingEcho = false;
        i++;
        continue;
      }
      arbWon++;
      lostSinceOwn = false;
      // ---- own exchange: find the request by the bytes that follow -------------------------------------------------
      exchangesSeen++;
      size_t next = followOwn(log, i, reqs, &hostSilentUntilSyn);
      i = next > i ? next : i + 1;
    }
    (void)lastActivity;
  }

 private:
  /** follows an exchange of the host starting at its echoed arbitration byte; returns the index after it */
  size_t followOwn(const std::vector<BusByte>& log, size_t start, std::vector<ReqInfo>& reqs, bool* silent) {
    const size_t n = log.size();
    // a SYN the host sends after a silent gap is an AUTO-SYN (judged by the main loop), never part of an exchange
    auto isHost = [&](size_t k) { return (log[k].origin == 'H' || log[k].origin == 'X') && !(log[k].hostWrote == 0xAA && log[k].gapBefore); };
    uint8_t qq = log[start].b;
    // candidates: pending requests with this source whose wire image is compatible with what follows
    ReqInfo* rq = nullptr;
    std::vector<uint8_t> W;
    // (several pending requests may carry identical bytes: one that is still open when the exchange starts is preferred over one that
    // completed within the last symbol time, and among those the one with fewer exchanges so far)
    for (int pass = 0; pass < 2 && !rq; pass++) for (auto& r : reqs) {
      if (r.master.empty() || r.master[0] != qq || r.submitted > log[start].t) continue;
      if (r.done >= 0 && r.done < log[start].t - (pass == 0 ? 0 : SYM)) continue;
      std::vector<uint8_t> w = specWire(r.master);
      // compare as many host bytes as follow
      size_t k = start + 1, p = 1;
      bool ok = true;
      while (k < n && p < w.size() && isHost(k)) { if (log[k].hostWrote != w[p]) { ok = false; break; } k++; p++; }
      if (ok && (!rq || r.exchanges < rq->exchanges)) { rq = &r; W = w; }
    }
    size_t i = start + 1;
    if (!rq) {
      // no request explains the bytes: report once, skip the host bytes
      if (i < n && isHost(i)) add("c02-wire-format", "bytes after won arbitration match no pending request: " + ctx(log, i));
      while (i < n && isHost(i)) i++;
      *silent = true;
      return i;
    }
    rq->exchanges++;
    for (int attempt = 0; attempt < 2; attempt++) {
      size_t p = attempt == 0 ? 1 : 0;
      for (; p < W.size(); p++, i++) {
        if (i >= n || !isHost(i)) {
          // the host stopped early: legitimate only after an adverse event (echo mismatch on the previous byte, error)
          if (i > start && isHost(i - 1) && log[i - 1].b != log[i - 1].hostWrote) { adverse++; *silent = true; return i; }
          if (i >= n) return i;
          adverse++; *silent = true;
          return i;
        }
        if (log[i].hostWrote != W[p]) { add("c02-wire-format", "expected " + vf::hex1(W[p]) + " at " + ctx(log, i) + " request " + vf::hex(rq->master)); *silent = true; return i + 1; }
        if (log[i].b != log[i].hostWrote && p + 1 < W.size()) {
          // echo mismatch: the host has to stop
          adverse++;
          if (i + 1 < n && isHost(i + 1) && log[i + 1].hostWrote != 0xAA) add("c03-continues-after-echo-mismatch", ctx(log, i + 1));
          *silent = true;
          return i + 1;
        }
      }
      if (i > 0 && log[i - 1].b != log[i - 1].hostWrote) { adverse++; *silent = true; return i; }   // CRC echo corrupted
      uint8_t zz = rq->master[1];
      if (zz == 0xFE) return expectSyn(log, i, rq, true, {});
      if (i >= n) return i;
      if (isHost(i)) { if (log[i].hostWrote != 0xAA) add("c02-wire-format", "host byte instead of acknowledge: " + ctx(log, i)); *silent = true; return i + 1; }
      uint8_t ack = log[i].b;
      if (log[i].gapBefore || ack == 0xAA) { adverse++; return i; }   // silence or SYN: failed
      i++;
      if (ack == 0x00) {
        if (specIsMaster(zz)) return expectSyn(log, i, rq, true, {});
        return followResponse(log, i, rq, silent);
      }
      adverse++;
      if (ack != 0xFF) { *silent = true; return i; }
      if (attempt == 1) { *silent = true; return i; }                  // second NAK: give up
      // NAK: exactly one full repetition starting with QQ
      if (i >= n || !isHost(i)) { add("c02-no-repeat-after-nak", ctx(log, i) + " request " + vf::hex(rq->master)); return i; }
    }
    return i;
  }

  size_t followResponse(const std::vector<BusByte>& log, size_t i, ReqInfo* rq, bool* silent) {
    const size_t n = log.size();
    // a SYN the host sends after a silent gap is an AUTO-SYN (judged by the main loop), never part of an exchange
    auto isHost = [&](size_t k) { return (log[k].origin == 'H' || log[k].origin == 'X') && !(log[k].hostWrote == 0xAA && log[k].gapBefore); };
    for (int attempt = 0; attempt < 2; attempt++) {
      // response: NN data CRC (escaped) from the peer
      std::vector<uint8_t> un; uint8_t crc = 0; bool esc = false; bool complete = false, crcOk = false;
      while (i < n && !isHost(i)) {
        uint8_t b = log[i].b;
        if (log[i].gapBefore || b == 0xAA) break;
        i++;
        bool isCrcByte = !esc && !un.empty() && un.size() == (size_t)un[0] + 1;
        uint8_t v = b;
        if (esc) { v = b == 0 ? 0xA9 : b == 1 ? 0xAA : 0; if (b > 1) { un.clear(); break; } esc = false; isCrcByte = !un.empty() && un.size() == (size_t)un[0] + 1; if (!isCrcByte) crc = specCrcStep(b, crc); }
        else if (b == 0xA9) { esc = true; if (!(un.size() && un.size() == (size_t)un[0] + 1)) crc = specCrcStep(b, crc); continue; }
        else if (!isCrcByte) crc = specCrcStep(b, crc);
        if (isCrcByte) { complete = true; crcOk = v == crc; break; }
        un.push_back(v);
      }
      if (!complete) {
        adverse++;
        // incomplete/garbled response: the host must not acknowledge positively
        if (i < n && isHost(i) && log[i].hostWrote == 0x00) add("c02-ack-without-complete-response", ctx(log, i));
        *silent = true;
        return i;
      }
      if (i >= n) return i;
      if (!isHost(i)) { add("c02-no-acknowledge-of-response", ctx(log, i) + " request " + vf::hex(rq->master)); return i; }
      uint8_t sent = log[i].hostWrote;
      if (attempt == 1 && !crcOk && sent == 0xAA) { adverse++; return i + 1; }   // second bad CRC: giving up with a SYN is fine
      if (crcOk && sent != 0x00) add("c02-nak-on-good-crc", ctx(log, i));
      if (!crcOk && sent == 0x00) add("c02-ack-on-bad-crc", ctx(log, i));
      if (!crcOk) adverse++;
      bool echoOk = log[i].b == sent;
      i++;
      if (!echoOk) { adverse++; *silent = true; return i; }
      if (sent == 0x00) return expectSyn(log, i, rq, crcOk, un);
      if (sent != 0xFF) { add("c02-wire-format", "neither ACK nor NAK: " + ctx(log, i - 1)); return i; }
      if (attempt == 1) return expectSyn(log, i, rq, false, {});
    }
    return i;
  }

  size_t expectSyn(const std::vector<BusByte>& log, size_t i, ReqInfo* rq, bool valid, const std::vector<uint8_t>& slave) {
    // a SYN the host sends after a silent gap is an AUTO-SYN (judged by the main loop), never part of an exchange
    auto isHost = [&](size_t k) { return (log[k].origin == 'H' || log[k].origin == 'X') && !(log[k].hostWrote == 0xAA && log[k].gapBefore); };
    if (i < log.size()) {
      if (!isHost(i) || log[i].hostWrote != 0xAA) add("c02-no-final-syn", ctx(log, i) + " request " + vf::hex(rq->master));
      else i++;
    }
    if (valid) { rq->validSeen = true; rq->validSlave = slave; }
    return i;
  }

  /** a foreign master part: if the host answers, check entitlement and content (C15); returns index after what was handled */
  size_t followForeign(const std::vector<BusByte>& log, size_t start, const MonConfig& cfg) {
    const size_t n = log.size();
    auto isHost = [&](size_t k) { return log[k].origin == 'H' || log[k].origin == 'X'; };
    size_t i = start;
    for (int attempt = 0; attempt < 2; attempt++) {
      std::vector<uint8_t> m; uint8_t crc = 0; bool esc = false, complete = false, crcOk = false;
      while (i < n && !isHost(i)) {
        uint8_t b = log[i].b;
        if ((log[i].gapBefore && i != start) || b == 0xAA) return i;
        i++;
        bool isCrc = !esc && m.size() >= 5 && m.size() == 5u + m[4];
        uint8_t v = b;
        if (esc) { if (b > 1) return i; v = b == 0 ? 0xA9 : 0xAA; esc = false; isCrc = m.size() >= 5 && m.size() == 5u + m[4]; if (!isCrc) crc = specCrcStep(b, crc); }
        else if (b == 0xA9) { esc = true; if (!(m.size() >= 5 && m.size() == 5u + m[4])) crc = specCrcStep(b, crc); continue; }
        else if (!isCrc) crc = specCrcStep(b, crc);
        if (isCrc) { complete = true; crcOk = v == crc; break; }
        m.push_back(v);
      }
      if (!complete) {
        // the host must not transmit into an incomplete foreign telegram
        if (i < n && isHost(i) && log[i].hostWrote != 0xAA) add("c03-transmits-into-foreign-telegram", ctx(log, i));
        return i;
      }
      const AnswerDef* a = cfg.answer ? refAnswer(cfg, m) : nullptr;
      if (i < n && isHost(i) && log[i].hostWrote == 0xAA && log[i].gapBefore) return i;   // an AUTO-SYN of the host after silence, not an acknowledge
      if (i < n && !isHost(i) && !crcOk && attempt == 0 && log[i].b == 0xFF && !log[i].gapBefore) { i++; continue; }   // somebody else rejected the damaged command: the requester repeats it
      if (i >= n || !isHost(i)) {             // somebody else (or nobody) acknowledged
        if (a && crcOk && i < n) add("c15-no-answer", "registered answer for " + vf::hex(m) + " but the host stays silent at " + ctx(log, i));
        return i;
      }
      // the host answers
      answersSeen++;
      uint8_t sent = log[i].hostWrote;
      if (!a) { add(cfg.answers.empty() ? "c03-answers-without-registration" : "c15-answers-unregistered", vf::hex(m) + " at " + ctx(log, i)); return i + 1; }
      if (!crcOk && sent == 0x00) add("c15-ack-on-bad-crc", vf::hex(m) + " at " + ctx(log, i));
      if (crcOk && sent != 0x00) add("c15-nak-on-good-crc", vf::hex(m) + " at " + ctx(log, i));
      i++;
      if (sent != 0x00) { if (attempt == 1 && sent == 0xFF) {} continue; }    // NAK: the master repeats (once)
      if (specIsMaster(m[1])) { answersCompleted++; return i; }
      // response of the host: NN data CRC, repeated at most once on NAK
      std::vector<uint8_t> W = specWire(a->resp);
      for (int rattempt = 0; rattempt < 2; rattempt++) {
        for (size_t p = 0; p < W.size(); p++, i++) {
          if (i >= n || !isHost(i)) { if (i > 0 && isHost(i - 1) && log[i - 1].b != log[i - 1].hostWrote) return i; add(p == 0 && rattempt == 1 ? "c15-response-not-repeated-after-nak" : "c15-response-incomplete", vf::hex(m) + " at " + ctx(log, i)); return i; }
          if (log[i].hostWrote != W[p]) { add("c15-response-content", "expected " + vf::hex1(W[p]) + " of " + vf::hex(W) + " at " + ctx(log, i)); return i + 1; }
          if (log[i].b != log[i].hostWrote) return i + 1;
        }
        if (i >= n || isHost(i)) { if (i < n && log[i].hostWrote != 0xAA) add("c15-transmits-after-response", ctx(log, i)); return i; }
        uint8_t react = log[i].b;
        if (log[i].gapBefore || react == 0xAA) return i;
        i++;
        if (react == 0x00) { answersCompleted++; return i; }
        if (react != 0xFF) { if (i < n && isHost(i) && log[i].hostWrote != 0xAA) add("c15-transmits-after-garbage", ctx(log, i)); return i; }
        if (rattempt == 1) { if (i < n && isHost(i) && log[i].hostWrote != 0xAA) add("c15-transmits-after-second-nak", ctx(log, i)); return i; }
      }
      return i;
    }
    return i;
  }
};

}  // namespace bsim
#endif
