// libFuzzer target (C20): (type text, length, divisor/values, raw bytes | value text) straight into DataField::create,
// read and write of the created field; afterwards a fixed encode/decode pair must still be right.
// input: definition text (one field list as in a CSV row, ';' separated cells) 0x01 raw bytes 0x01 value text
#include "hcommon.h"
#include "fuzz_common.h"
#include "lib/ebus/data.h"
#include "lib/ebus/datatype.h"
#include "lib/utils/log.h"

using namespace ebusd;  // NOLINT

extern "C" int LLVMFuzzerInitialize(int* argc, char*** argv) {
  setFacilitiesLogLevel(-1, ll_none);
  fz::startWatchdog();
  return 0;
}

static const DataField* createField(const std::string& def, bool isWrite, bool bcMaster, DataFieldTemplates* templates) {
  // cells separated by ';' : name;part;type;divisor/values;unit;comment repeated
  vector< map<string, string> > rows;
  static const char* cols[] = {"name", "part", "type", "divisor/values", "unit", "comment"};
  map<string, string> row; size_t ci = 0; std::string cell;
  auto flushCell = [&]() { row[cols[ci % 6]] = cell; cell.clear(); ci++; if (ci % 6 == 0) { rows.push_back(row); row.clear(); } };
  for (char c : def) { if (c == ';') flushCell(); else cell += c; }
  flushCell();
  if (ci % 6 != 0) rows.push_back(row);
  if (rows.size() > 12) rows.resize(12);
  const DataField* field = nullptr;
  std::string err;
  DataField::create(isWrite, false, bcMaster, MAX_POS, templates, &rows, &err, &field);
  return field;
}

extern "C" int LLVMFuzzerTestOneInput(const uint8_t* data, size_t size) {
  if (size < 1 || size > 1024) return 0;
  fz::UnitScope scope;
  uint8_t flags = data[0];
  std::string all((const char*)data + 1, size - 1);
  std::string parts[3]; int pi = 0;
  for (char c : all) { if (c == 0x01 && pi < 2) { pi++; continue; } parts[pi] += c; }
  DataFieldTemplates templates;
  const DataField* field = createField(parts[0], (flags & 1) != 0, (flags & 2) != 0, &templates);
  if (field) {
    std::ostringstream d; field->dump(false, OF_NONE, &d); field->dump(true, OF_JSON | OF_ALL_ATTRS | OF_NAMES, &d);
    MasterSymbolString master; SlaveSymbolString slave;
    master.push_back(0x31); master.push_back(0x08); master.push_back(0xb5); master.push_back(0x09);
    size_t n = std::min<size_t>(parts[1].size(), 30);
    master.push_back((symbol_t)n); slave.push_back((symbol_t)n);
    for (size_t i = 0; i < n; i++) { master.push_back((symbol_t)parts[1][i]); slave.push_back((symbol_t)parts[1][i]); }
    size_t offset = (flags >> 2) & 7;
    for (OutputFormat f : {OF_NONE, OF_NAMES | OF_UNITS | OF_COMMENTS, OF_JSON | OF_NAMES | OF_ALL_ATTRS, OF_NUMERIC, OF_VALUENAME | OF_JSON | OF_SHORT}) {
      std::ostringstream o1, o2;
      field->read(master, offset, false, nullptr, -1, f, -1, &o1);
      field->read(slave, offset, false, nullptr, -1, f, -1, &o2);
      std::ostringstream o3; field->read(slave, 0, false, "v", 0, f, -1, &o3);
    }
    for (char sep : {UI_FIELD_SEPARATOR, ','}) {
      MasterSymbolString wm; SlaveSymbolString ws;
      wm.push_back(0x31); wm.push_back(0x08); wm.push_back(0xb5); wm.push_back(0x09); wm.push_back(0);
      ws.push_back(0);
      std::istringstream in1(parts[2]), in2(parts[2]);
      size_t l1 = 0, l2 = 0;
      if (field->write(sep, offset, &in1, &wm, &l1) == RESULT_OK) { std::ostringstream o; field->read(wm, offset, false, nullptr, -1, OF_NONE, -1, &o); }
      if (field->write(sep, offset, &in2, &ws, &l2) == RESULT_OK) { std::ostringstream o; field->read(ws, offset, false, nullptr, -1, OF_NONE, -1, &o); }
    }
    // derived with another name/divisor as templates do
    if (flags & 0x40) {
      vector<const SingleDataField*> fields;
      std::map<std::string, std::string> attrs;
      std::map<unsigned int, std::string> values;
      if (flags & 0x20) { values[1] = "one"; values[2] = "two"; }
      field->derive("x", (flags & 0x80) ? pt_masterData : pt_slaveData, (int)(int8_t)data[size - 1], values, &attrs, &fields);
      for (auto f : fields) delete f;
    }
    delete field;
  }
  // probe
  {
    const DataField* f = createField("t;;D2C;;°C;;n;;UIN;10;;", false, false, &templates);
    if (!f) fz::violation("c20-probe-field-rejected", "D2C/UIN");
    SlaveSymbolString s; s.push_back(4); s.push_back(0x50); s.push_back(0x01); s.push_back(0x39); s.push_back(0x30);
    std::ostringstream o;
    if (f->read(s, 0, false, nullptr, -1, OF_NONE, -1, &o) != RESULT_OK || o.str() != "21.00;1234.5") fz::violation("c20-probe-decode-wrong", o.str());
    SlaveSymbolString w; w.push_back(0);
    std::istringstream in("21.00;1234.5");
    size_t len = 0;
    if (f->write(UI_FIELD_SEPARATOR, 0, &in, &w, &len) != RESULT_OK || w.getStr() != "0050013930") fz::violation("c20-probe-encode-wrong", w.getStr());
    delete f;
  }
  return 0;
}
