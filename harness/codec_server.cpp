// codec_server: executes batches of field-codec operations on the real DataField/DataType code and prints the raw
// results; all judging is done by the Python reference (oracle/ref_codec.py).  Used by C05, C06, C07, C10, C12.
//
// Input: file given as argv[1] (or stdin), one command per line, fields separated by TAB; text payloads are
// "esc"-encoded (\\ \t \n \r \xHH).  Output: one result line per executed operation, same encoding.
//   D  fid isWrite bcMaster (name part type divvalues range unit comment)+   -> d fid code lenM lenS isSet count
//   R  fid fmt part hexdata [fieldName|- [fieldIndex]]                       -> r code text
//   W  fid part prefillhex text                                               -> w code hex used
//   RT fid fmt part hexdata                                                   -> t code text wcode whex used w2code w2hex
//        (read; on success write the text back into an empty string and into a copy of the input data)
//   SW fid fmt part nbytes start count                                        -> RT for raw=start..start+count-1 (LE)
//   WRW fid fmt part text                                                   -> e wcode whex used rcode rtext w2code w2hex
//   RM fmt n (fid part hex)*n                                                 -> m code text   (shared ostringstream)
//   P                 the next D line and the next operation line run in a pristine forked child
//   T                 the next operation line runs on a new thread
//   Q                 quit
#include "hcommon.h"
#include "lib/ebus/data.h"
#include "lib/ebus/datatype.h"
#include "lib/ebus/symbol.h"
#include "lib/ebus/result.h"
#include <unistd.h>
#include <sys/wait.h>
#include <iostream>
#include <fstream>
#include <thread>

using namespace ebusd;
using namespace vf;
using std::string;
using std::vector;
using std::map;

static string esc(const string& s) {
  string o;
  for (unsigned char c : s) {
    if (c == '\\') o += "\\\\";
    else if (c == '\t') o += "\\t";
    else if (c == '\n') o += "\\n";
    else if (c == '\r') o += "\\r";
    else if (c < 0x20 || c >= 0x7f) { char b[8]; snprintf(b, sizeof(b), "\\x%02x", c); o += b; }
    else o += (char)c;
  }
  return o;
}
static string unesc(const string& s) {
  string o;
  for (size_t i = 0; i < s.size(); i++) {
    if (s[i] != '\\' || i + 1 >= s.size()) { o += s[i]; continue; }
    char n = s[++i];
    if (n == 't') o += '\t'; else if (n == 'n') o += '\n'; else if (n == 'r') o += '\r'; else if (n == '\\') o += '\\';
    else if (n == 'x' && i + 2 < s.size()) { o += (char)strtol(s.substr(i + 1, 2).c_str(), nullptr, 16); i += 2; }
    else o += n;
  }
  return o;
}
static vector<string> splitTab(const string& l) {
  vector<string> v; size_t p = 0;
  while (true) { size_t q = l.find('\t', p); if (q == string::npos) { v.push_back(l.substr(p)); break; } v.push_back(l.substr(p, q - p)); p = q + 1; }
  return v;
}
static vector<uint8_t> unhex(const string& h) {
  vector<uint8_t> v;
  for (size_t i = 0; i + 1 < h.size(); i += 2) v.push_back((uint8_t)strtol(h.substr(i, 2).c_str(), nullptr, 16));
  return v;
}

static map<string, const DataField*> g_fields;
static DataFieldTemplates* g_templates;

static void fill(SymbolString* s, bool master, const vector<uint8_t>& data) {
  if (master) { s->push_back(0x10); s->push_back(0x08); s->push_back(0xb5); s->push_back(0x09); }
  s->push_back((symbol_t)data.size());
  for (uint8_t b : data) s->push_back(b);
}
static string dataHex(const SymbolString& s) {
  string o; size_t off = s.isMaster() ? 5 : 1;
  for (size_t i = off; i < s.size(); i++) o += hex1(s[i]);
  return o;
}

static string doDefine(const vector<string>& f) {
  // D fid isWrite bcMaster rows...
  const string& fid = f[1];
  bool isWrite = f[2] == "1", bcMaster = f[3] == "1";
  vector<map<string, string>> rows;
  for (size_t i = 4; i + 7 <= f.size(); i += 7) {
    map<string, string> row;
    row["name"] = unesc(f[i]);
    if (!f[i + 1].empty()) row["part"] = f[i + 1];
    row["type"] = unesc(f[i + 2]);
    if (!f[i + 3].empty()) row["divisor/values"] = unesc(f[i + 3]);
    if (!f[i + 4].empty()) row["range"] = unesc(f[i + 4]);
    if (!f[i + 5].empty()) row["unit"] = unesc(f[i + 5]);
    if (!f[i + 6].empty()) row["comment"] = unesc(f[i + 6]);
    rows.push_back(row);
  }
  const DataField* field = nullptr;
  string err;
  result_t r = DataField::create(isWrite, false, bcMaster, MAX_POS, g_templates, &rows, &err, &field);
  std::ostringstream o;
  o << "d\t" << fid << "\t" << r;
  if (r == RESULT_OK && field) {
    auto it = g_fields.find(fid);
    if (it != g_fields.end()) { delete it->second; }
    g_fields[fid] = field;
    o << "\t" << field->getLength(pt_masterData, MAX_LEN) << "\t" << field->getLength(pt_slaveData, MAX_LEN) << "\t"
      << (field->isSet() ? 1 : 0) << "\t" << field->getCount(pt_any, nullptr);
  } else {
    auto it = g_fields.find(fid);
    if (it != g_fields.end()) { delete it->second; g_fields.erase(it); }
    o << "\t0\t0\t0\t0\t" << esc(err);
  }
  return o.str();
}

static void readOnce(const DataField* fld, OutputFormat fmt, bool master, const vector<uint8_t>& data, const char* fieldName,
                     ssize_t fieldIndex, result_t* code, string* text) {
  std::ostringstream out;
  if (master) { MasterSymbolString s; fill(&s, true, data); *code = fld->read(s, 0, false, fieldName, fieldIndex, fmt, -1, &out); }
  else { SlaveSymbolString s; fill(&s, false, data); *code = fld->read(s, 0, false, fieldName, fieldIndex, fmt, -1, &out); }
  *text = out.str();
}
static void writeOnce(const DataField* fld, bool master, const vector<uint8_t>* prefill, const string& text, result_t* code,
                      string* hexout, size_t* used) {
  std::istringstream in(text);
  *used = 0;
  if (master) {
    MasterSymbolString s;
    if (prefill) fill(&s, true, *prefill); else { vector<uint8_t> e; fill(&s, true, e); }
    *code = fld->write(UI_FIELD_SEPARATOR, 0, &in, &s, used);
    *hexout = dataHex(s);
  } else {
    SlaveSymbolString s;
    if (prefill) fill(&s, false, *prefill); else { vector<uint8_t> e; fill(&s, false, e); }
    *code = fld->write(UI_FIELD_SEPARATOR, 0, &in, &s, used);
    *hexout = dataHex(s);
  }
}

static string doRT(const DataField* fld, OutputFormat fmt, bool master, const vector<uint8_t>& data, const char* tag) {
  result_t code; string text;
  readOnce(fld, fmt, master, data, nullptr, -1, &code, &text);
  std::ostringstream o;
  o << tag << "\t" << hex(data) << "\t" << code << "\t" << esc(text);
  if (code == RESULT_OK) {
    result_t wc; string wh; size_t used;
    writeOnce(fld, master, nullptr, text, &wc, &wh, &used);
    o << "\t" << wc << "\t" << wh << "\t" << used;
    writeOnce(fld, master, &data, text, &wc, &wh, &used);
    o << "\t" << wc << "\t" << wh;
  }
  return o.str();
}

static string execOp(const vector<string>& f) {
  const string& op = f[0];
  if (op == "D") return doDefine(f);
  if (op == "R") {
    auto it = g_fields.find(f[1]);
    if (it == g_fields.end()) return "r\t-999\tno field";
    result_t code; string text;
    string fname = f.size() > 5 && f[5] != "-" ? unesc(f[5]) : "";
    ssize_t idx = f.size() > 6 ? atol(f[6].c_str()) : -1;
    readOnce(it->second, (OutputFormat)atoi(f[2].c_str()), f[3] == "m", unhex(f[4]), f.size() > 5 && f[5] != "-" ? fname.c_str() : nullptr, idx, &code, &text);
    return "r\t" + std::to_string(code) + "\t" + esc(text);
  }
  if (op == "W") {
    auto it = g_fields.find(f[1]);
    if (it == g_fields.end()) return "w\t-999\t\t0";
    result_t code; string h; size_t used;
    vector<uint8_t> pre = unhex(f[3]);
    writeOnce(it->second, f[2] == "m", f[3] == "-" ? nullptr : &pre, unesc(f[4]), &code, &h, &used);
    return "w\t" + std::to_string(code) + "\t" + h + "\t" + std::to_string(used);
  }
  if (op == "K16") {
    // KNX 16 bit float helpers: K16 from to -> k <value %.9g>:<re-encoded hex>:<decode of the re-encoded %.9g>;...
    std::ostringstream k;
    k << "k\t";
    unsigned long from = strtoul(f[1].c_str(), nullptr, 10), to = strtoul(f[2].c_str(), nullptr, 10);
    char buf[96];
    for (unsigned long v = from; v < to && v < 65536; v++) {
      float x = uint16ToFloat((uint16_t)v);
      uint16_t re = x != x ? (uint16_t)0x7fff : floatToUint16(x);   // (encoding NaN is not part of any statement)
      snprintf(buf, sizeof(buf), "%.9g:%04x:%.9g;", (double)x, (unsigned)re, (double)uint16ToFloat(re));
      k << buf;
    }
    return k.str();
  }
  if (op == "RT") {
    auto it = g_fields.find(f[1]);
    if (it == g_fields.end()) return "t\t\t-999\t";
    return doRT(it->second, (OutputFormat)atoi(f[2].c_str()), f[3] == "m", unhex(f[4]), "t");
  }
  if (op == "WRW") {
    // WRW fid fmt part text -> e wcode whex used rcode rtext w2code w2hex  (encode, decode the result, encode again)
    auto it = g_fields.find(f[1]);
    if (it == g_fields.end()) return "e\t-999";
    OutputFormat fmt = (OutputFormat)atoi(f[2].c_str());
    bool master = f[3] == "m";
    result_t wc; string wh; size_t used;
    writeOnce(it->second, master, nullptr, unesc(f[4]), &wc, &wh, &used);
    std::ostringstream o;
    o << "e\t" << wc << "\t" << wh << "\t" << used;
    if (wc == RESULT_OK) {
      result_t rc; string text;
      readOnce(it->second, fmt, master, unhex(wh), nullptr, -1, &rc, &text);
      o << "\t" << rc << "\t" << esc(text);
      if (rc == RESULT_OK) {
        result_t w2; string w2h; size_t u2;
        writeOnce(it->second, master, nullptr, text, &w2, &w2h, &u2);
        o << "\t" << w2 << "\t" << w2h;
      }
    }
    return o.str();
  }
  if (op == "RM") {
    OutputFormat fmt = (OutputFormat)atoi(f[1].c_str());
    int n = atoi(f[2].c_str());
    std::ostringstream out;
    result_t code = RESULT_OK;
    for (int i = 0; i < n && code >= RESULT_OK; i++) {
      auto it = g_fields.find(f[3 + 3 * i]);
      if (it == g_fields.end()) { code = (result_t)-999; break; }
      bool master = f[4 + 3 * i] == "m";
      vector<uint8_t> data = unhex(f[5 + 3 * i]);
      if (i) out << "|";
      if (master) { MasterSymbolString s; fill(&s, true, data); code = it->second->read(s, 0, false, nullptr, -1, fmt, -1, &out); }
      else { SlaveSymbolString s; fill(&s, false, data); code = it->second->read(s, 0, false, nullptr, -1, fmt, -1, &out); }
    }
    return "m\t" + std::to_string(code) + "\t" + esc(out.str());
  }
  return "?\tunknown op " + op;
}

// ---- pristine zygote: forked before anything else ran; forks one child per probe --------------------------
static int g_zreq = -1, g_zres = -1;
static bool writeAll(int fd, const string& s) { size_t off = 0; while (off < s.size()) { ssize_t n = write(fd, s.data() + off, s.size() - off); if (n <= 0) return false; off += (size_t)n; } return true; }
static bool readLine(int fd, string* line) { line->clear(); char c; while (true) { ssize_t n = read(fd, &c, 1); if (n <= 0) return false; if (c == '\n') return true; *line += c; } }

static void zygoteLoop(int reqfd, int resfd) {
  string l1, l2;
  while (readLine(reqfd, &l1) && readLine(reqfd, &l2)) {
    int pfd[2];
    if (pipe(pfd)) _exit(3);
    pid_t pid = fork();
    if (pid == 0) {
      close(pfd[0]);
      g_templates = new DataFieldTemplates();
      string o1 = l1 == "-" ? string("-") : execOp(splitTab(l1));
      string o2 = execOp(splitTab(l2));
      writeAll(pfd[1], o1 + "\n" + o2 + "\n");
      _exit(0);
    }
    close(pfd[1]);
    string a, b;
    bool ok = readLine(pfd[0], &a) && readLine(pfd[0], &b);
    close(pfd[0]);
    int st = 0;
    waitpid(pid, &st, 0);
    if (!ok) { a = "-"; b = "x\tchild-failed\t" + std::to_string(st); }
    writeAll(resfd, a + "\n" + b + "\n");
  }
  _exit(0);
}

int main(int argc, char** argv) {
  bool zyg = false;
  for (int i = 1; i < argc; i++) if (!strcmp(argv[i], "zygote=1")) zyg = true;
  if (zyg) {
    int rq[2], rs[2];
    if (pipe(rq) || pipe(rs)) return 3;
    pid_t z = fork();
    if (z == 0) { close(rq[1]); close(rs[0]); zygoteLoop(rq[0], rs[1]); }
    close(rq[0]); close(rs[1]);
    g_zreq = rq[1]; g_zres = rs[0];
  }
  installDeathCallback();
  g_templates = new DataFieldTemplates();
  std::istream* in = &std::cin;
  std::ifstream fin;
  if (argc > 1 && strchr(argv[1], '=') == nullptr) { fin.open(argv[1]); in = &fin; }
  string line;
  std::ios::sync_with_stdio(false);
  long long ops = 0;
  while (std::getline(*in, line)) {
    if (line.empty()) continue;
    vector<string> f = splitTab(line);
    if (f[0] == "Q") break;
    if (f[0] == "SW") {
      auto it = g_fields.find(f[1]);
      if (it == g_fields.end()) { std::cout << "s\t\t-999\t\n"; continue; }
      OutputFormat fmt = (OutputFormat)atoi(f[2].c_str());
      bool master = f[3] == "m";
      int nb = atoi(f[4].c_str());
      unsigned long long start = strtoull(f[5].c_str(), nullptr, 10), count = strtoull(f[6].c_str(), nullptr, 10);
      for (unsigned long long raw = start; raw < start + count; raw++) {
        vector<uint8_t> data;
        for (int b = 0; b < nb; b++) data.push_back((uint8_t)(raw >> (8 * b)));
        std::cout << doRT(it->second, fmt, master, data, "s") << "\n";
        ops++;
      }
      continue;
    }
    if (f[0] == "P") {
      string l1, l2;
      if (!std::getline(*in, l1) || !std::getline(*in, l2)) break;
      if (g_zreq < 0) { std::cout << "x\tno zygote\n"; continue; }
      writeAll(g_zreq, l1 + "\n" + l2 + "\n");
      string a, b;
      if (!readLine(g_zres, &a) || !readLine(g_zres, &b)) { std::cout << "x\tzygote died\n"; return 3; }
      std::cout << "p\t" << b << "\n";
      continue;
    }
    if (f[0] == "T") {
      string l1;
      if (!std::getline(*in, l1)) break;
      string res;
      std::thread th([&] { res = execOp(splitTab(l1)); });
      th.join();
      std::cout << res << "\n";
      continue;
    }
    if (f[0] != "D") current(line.substr(0, 200));
    std::cout << execOp(f) << "\n";
    ops++;
  }
  std::cout.flush();
  for (auto& kv : g_fields) delete kv.second;
  g_fields.clear();
  delete g_templates;
  return 0;
}
