// Common helpers for the /verif harness binaries: deterministic PRNG, output protocol, tiny JSON writer.
// Output protocol (stdout, read by bin/vlib.py run_shards):
//   V\t<key>\t<detail>   a violation witnessed by a monitor
//   S\t<json>            statistics of this shard (numbers are summed over shards, lists concatenated)
//   C\t<text>            "current case" marker, flushed before a risky operation so that a sanitizer abort can be
//                        attributed to a concrete input
#ifndef VERIF_HCOMMON_H_
#define VERIF_HCOMMON_H_

#include <cstdint>
#include <cstdio>
#include <cstdlib>
#include <cstring>
#include <unistd.h>
#include <map>
#include <set>
#include <sstream>
#include <string>
#include <vector>

namespace vf {

struct Rng {
  uint64_t s;
  explicit Rng(uint64_t seed) {
    // hash the seed first: with s = seed * increment consecutive seeds would yield the same stream shifted by one
    uint64_t z = seed + 0x632BE59BD9B4E019ULL;
    z = (z ^ (z >> 32)) * 0xD6E8FEB86659FD93ULL;
    z = (z ^ (z >> 32)) * 0xD6E8FEB86659FD93ULL;
    s = z ^ (z >> 32) ^ 0x1234567ULL;
    next(); next();
  }
  uint64_t next() {
    uint64_t z = (s += 0x9E3779B97F4A7C15ULL);
    z = (z ^ (z >> 30)) * 0xBF58476D1CE4E5B9ULL;
    z = (z ^ (z >> 27)) * 0x94D049BB133111EBULL;
    return z ^ (z >> 31);
  }
  uint32_t below(uint32_t n) { return n == 0 ? 0 : (uint32_t)(next() % n); }
  int range(int lo, int hi) { return lo + (int)below((uint32_t)(hi - lo + 1)); }  // inclusive
  bool chance(int num, int den) { return (int)below((uint32_t)den) < num; }
  uint8_t byte() { return (uint8_t)next(); }
  template <typename T> const T& pick(const std::vector<T>& v) { return v[below((uint32_t)v.size())]; }
};

inline std::string hex(const uint8_t* d, size_t n) {
  static const char* H = "0123456789abcdef";
  std::string s;
  for (size_t i = 0; i < n; i++) { s += H[d[i] >> 4]; s += H[d[i] & 15]; }
  return s;
}
inline std::string hex(const std::vector<uint8_t>& v) { return hex(v.data(), v.size()); }
inline std::string hex1(uint8_t b) { return hex(&b, 1); }

inline std::string jstr(const std::string& s) {
  std::string o = "\"";
  for (unsigned char c : s) {
    if (c == '"' || c == '\\') { o += '\\'; o += (char)c; }
    else if (c < 0x20 || c >= 0x7f) { char b[8]; snprintf(b, sizeof(b), "\\u%04x", c); o += b; }
    else o += (char)c;
  }
  return o + "\"";
}

inline std::string oneline(const std::string& s) {
  std::string o;
  for (unsigned char c : s) {
    if (c == '\n') o += "\\n"; else if (c == '\t') o += "\\t"; else if (c == '\r') o += "\\r";
    else if (c < 0x20 || c >= 0x7f) { char b[8]; snprintf(b, sizeof(b), "\\x%02x", c); o += b; }
    else o += (char)c;
  }
  return o;
}

struct Stats {
  std::map<std::string, long long> n;
  std::map<std::string, std::vector<std::string>> lists;   // values are raw JSON fragments
  std::map<std::string, std::map<std::string, long long>> hist;
  void sample(const std::string& list, const std::string& text, size_t cap = 6) {
    auto& l = lists[list];
    if (l.size() < cap) l.push_back(jstr(text));
  }
  void emit() {
    std::string o = "{";
    bool first = true;
    for (auto& kv : n) { o += (first ? "" : ",") + jstr(kv.first) + ":" + std::to_string(kv.second); first = false; }
    for (auto& kv : lists) {
      o += (first ? "" : ",") + jstr(kv.first) + ":["; first = false;
      for (size_t i = 0; i < kv.second.size(); i++) o += (i ? "," : "") + kv.second[i];
      o += "]";
    }
    for (auto& kv : hist) {
      o += (first ? "" : ",") + jstr(kv.first) + ":{"; first = false;
      bool f2 = true;
      for (auto& h : kv.second) { o += (f2 ? "" : ",") + jstr(h.first) + ":" + std::to_string(h.second); f2 = false; }
      o += "}";
    }
    o += "}";
    printf("S\t%s\n", o.c_str());
    fflush(stdout);
  }
};

static long long g_violations = 0;
inline void violation(const std::string& key, const std::string& detail) {
  if (++g_violations <= 200) {
    printf("V\t%s\t%s\n", oneline(key).c_str(), oneline(detail).c_str());
    fflush(stdout);
  }
}
// "current case" marker: remembered, and written to stderr as "CASE\t<text>" by the sanitizer death callback so that
// a sanitizer abort can be attributed to a concrete input
static char g_current[1024];
inline void current(const std::string& text) {
  std::string o = oneline(text);
  strncpy(g_current, o.c_str(), sizeof(g_current) - 1);
}
#if defined(__SANITIZE_ADDRESS__) || defined(__SANITIZE_THREAD__)
#define VF_HAVE_SAN 1
#elif defined(__has_feature)
#if __has_feature(address_sanitizer) || __has_feature(thread_sanitizer)
#define VF_HAVE_SAN 1
#endif
#endif
#ifdef VF_HAVE_SAN
extern "C" void __sanitizer_set_death_callback(void (*callback)(void));
#endif
inline void installDeathCallback() {
#ifdef VF_HAVE_SAN
  __sanitizer_set_death_callback([]() {
    fflush(stdout);
    const char* p = "\nCASE\t";
    if (write(2, p, 6) < 0 || write(2, g_current, strlen(g_current)) < 0 || write(2, "\n", 1) < 0) {}
  });
#endif
}

// args: key=value pairs
struct Args {
  std::map<std::string, std::string> kv;
  Args(int argc, char** argv) {
    for (int i = 1; i < argc; i++) {
      const char* eq = strchr(argv[i], '=');
      if (eq) kv[std::string(argv[i], eq - argv[i])] = eq + 1; else kv[argv[i]] = "1";
    }
  }
  long long num(const std::string& k, long long def) const {
    auto it = kv.find(k);
    return it == kv.end() ? def : atoll(it->second.c_str());
  }
  std::string str(const std::string& k, const std::string& def = "") const {
    auto it = kv.find(k);
    return it == kv.end() ? def : it->second;
  }
};

// FNV-1a for fingerprints of cases (distinctness accounting)
inline uint64_t fnv(const void* p, size_t n, uint64_t h = 1469598103934665603ULL) {
  const uint8_t* b = (const uint8_t*)p;
  for (size_t i = 0; i < n; i++) { h ^= b[i]; h *= 1099511628211ULL; }
  return h;
}
inline uint64_t fnv(const std::string& s, uint64_t h = 1469598103934665603ULL) { return fnv(s.data(), s.size(), h); }

}  // namespace vf
#endif
