// bus_driver: the real FileTransport -> PlainDevice/EnhancedDevice -> DirectProtocolHandler stack on the virtual bus
// (stepped mode: DirectProtocolHandler::run() executes one loop iteration per call when the thread is not started).
// Modes: c01 (passive reception), c02 (active requests), c03 (entitlement), c15 (answer mode).
#include "bus_sim.h"
#include "bus_mon.h"

using namespace bsim;
using namespace vf;

static Stats st;
static long g_only = -1;
static bool g_verbose = false;
static uint64_t g_seed = 1;
static std::string g_filter;

struct Config {
  uint8_t own = 0x31; bool readOnly = false, answer = false, generateSyn = false, enhanced = false;
  unsigned lockCount = 0, busLostRetries = 3, failedSendRetries = 2;
  std::string str() const {
    char b[200];
    snprintf(b, sizeof(b), "own=%02x ro=%d answer=%d gensyn=%d enh=%d lock=%u lostretries=%u", own, readOnly, answer, generateSyn, enhanced, lockCount, busLostRetries);
    return b;
  }
};

/** forwards to the real device and records every call (only used with verbose=1) */
struct TraceDevice : public Device {
  Device* in;
  std::string trace;
  result_t lastRecv = RESULT_OK;
  long staleBufferTimeouts = 0;    // recv(timeout>0) timed out although the previous recv had announced buffered data
  explicit TraceDevice(Device* d) : in(d) {}
  ~TraceDevice() override { delete in; }
  const char* getName() const override { return in->getName(); }
  void formatInfo(std::ostringstream* o, bool v, bool p) override { in->formatInfo(o, v, p); }
  result_t open() override { return in->open(); }
  bool isValid() override { return in->isValid(); }
  result_t send(symbol_t v) override { result_t r = in->send(v); if (g_verbose) trace += "tx" + hex1(v) + "=" + std::to_string(r) + " "; return r; }
  result_t recv(unsigned int timeout, symbol_t* value, ArbitrationState* a) override {
    result_t r = in->recv(timeout, value, a);
    if (r == RESULT_ERR_TIMEOUT && timeout > 0 && lastRecv == RESULT_CONTINUE) staleBufferTimeouts++;
    if (r != RESULT_ERR_TIMEOUT || timeout > 0) lastRecv = r;
    if (g_verbose) {
      char b[64]; snprintf(b, sizeof(b), "rx(%u)=%d:%02x/%d@%lld ", timeout, r, r >= 0 ? *value : 0, a ? (int)*a : -1, (long long)((g.now / 1000000) % 100000));
      trace += b;
    }
    return r;
  }
  result_t startArbitration(symbol_t m) override { result_t r = in->startArbitration(m); if (g_verbose) trace += "arb" + hex1(m) + "=" + std::to_string(r) + " "; return r; }
  bool isArbitrating() const override { return in->isArbitrating(); }
  bool cancelRunningArbitration(ArbitrationState* a) override { return in->cancelRunningArbitration(a); }
};

struct World {
  Config cfg;
  Bus bus;
  RecListener lis;
  SimHandler* handler = nullptr;
  TraceDevice* tdev = nullptr;
  std::vector<size_t> chunks;
  size_t ci = 0;
  long steps = 0;

  void start(Rng* rng) {
    g.reset();
    // every run starts at a clock value derived from its own PRNG stream (second boundaries matter for the signal-loss logic)
    g.now = 1700000000LL * 1000000000LL + (int64_t)(rng ? rng->below(1000) : 0) * MS;
    bus = Bus();
    bus.enhanced = cfg.enhanced;
    bus.rng = rng;
    bus.attach();
    g.chunk = [this](size_t avail, size_t cap) { return chunks.empty() ? avail : chunks[ci++ % chunks.size()]; };
    ebus_protocol_config_t pc;
    memset(&pc, 0, sizeof(pc));
    pc.device = "sim"; pc.noDeviceCheck = true; pc.readOnly = cfg.readOnly; pc.extraLatency = 0; pc.ownAddress = cfg.own;
    pc.answer = cfg.answer; pc.busLostRetries = cfg.busLostRetries; pc.failedSendRetries = cfg.failedSendRetries;
    pc.busAcquireTimeout = 10; pc.slaveRecvTimeout = 25; pc.lockCount = cfg.lockCount; pc.generateSyn = cfg.generateSyn; pc.initialSend = false;
    auto* tr = new vbus::SimTransport("sim", 0, false);
    Device* dev = cfg.enhanced ? (Device*)new EnhancedDevice(tr) : (Device*)new PlainDevice(tr);
    tdev = new TraceDevice(dev); dev = tdev;
    handler = new SimHandler(pc, dev, &lis);
    if (tdev) tdev->in->setListener(handler);
    lis.symbolCounter = &handler->rxSymbols;
    handler->open();
  }
  /** run until the script is exhausted and the bus has been quiet for a while */
  bool run(long maxSteps = 200000) {
    int quiet = 0;
    while (steps < maxSteps) {
      handler->step();
      steps++;
      if (bus.scriptDone() && g.rx.empty()) { if (++quiet > 6) return true; } else quiet = 0;
    }
    return false;
  }
  ~World() { delete handler; }
};

static std::string logHex(const std::vector<BusByte>& log, size_t from = 0, size_t to = (size_t)-1) {
  std::string s;
  for (size_t i = from; i < log.size() && i < to; i++) {
    if (log[i].gapBefore) s += "~";
    s += hex1(log[i].b);
    if (log[i].origin == 'H') s += "'"; else if (log[i].origin == 'X') s += "*";
  }
  return s;
}

// ---- C01 ----------------------------------------------------------------------------------------------------------
static Telegram randTelegram(Rng& r, const Config& cfg, bool allowOwnDst = false) {
  Telegram t;
  t.qq = MASTERS[r.below(25)];
  int k = r.range(0, 9);
  if (k < 2) t.zz = 0xFE;
  else if (k < 4) { do { t.zz = MASTERS[r.below(25)]; } while (t.zz == t.qq); }
  else { do { t.zz = r.chance(1, 2) ? (uint8_t)(MASTERS[r.below(25)] + 5) : r.byte(); } while (t.zz == 0xA9 || t.zz == 0xAA || t.zz == t.qq || specIsMaster(t.zz) || t.zz == 0xFE); }
  if (!allowOwnDst && cfg.answer) {
    // nothing is registered for answering in C01, any destination is fine
  }
  t.pb = biasedByte(r); t.sb = biasedByte(r);
  size_t nn = r.chance(1, 12) ? (size_t)r.range(17, 30) : (size_t)r.range(0, 16);
  for (size_t i = 0; i < nn; i++) t.data.push_back(biasedByte(r));
  size_t sn = (size_t)r.range(0, 16);
  for (size_t i = 0; i < sn; i++) t.sdata.push_back(biasedByte(r));
  return t;
}

/** derive a corrupted fragment from a well-formed wire image by one edit; returns a description */
static std::string corrupt(Rng& r, const Telegram& t, std::vector<uint8_t>* w, std::vector<int64_t>* gaps) {
  std::vector<char> org;
  w->clear();
  wireOf(t, false, false, false, false, w, &org);
  size_t n = w->size();
  gaps->assign(n, 0);
  int kind = r.range(0, 15);
  size_t pos = r.below((uint32_t)n);
  switch (kind) {
    case 0: (*w)[pos] ^= (uint8_t)(1 << r.below(8)); return "bitflip@" + std::to_string(pos);
    case 1: { // A9 followed by a byte > 01
      w->insert(w->begin() + (long)pos, {0xA9, (uint8_t)r.range(2, 255)}); gaps->resize(w->size(), 0); return "bad-escape@" + std::to_string(pos); }
    case 2: (*w)[pos] = 0xAA; return "syn-inside@" + std::to_string(pos);
    case 3: (*w)[0] = (uint8_t)(r.chance(1, 2) ? t.qq + 5 : r.byte()); return "qq-replaced";
    case 4: (*w)[1] = r.chance(1, 3) ? (uint8_t)0xA9 : r.chance(1, 2) ? (*w)[0] : (uint8_t)0xAA; return "zz-invalid";
    case 5: { // acknowledge replaced / dropped
      for (size_t i = 0; i < n; i++) if (org[i] != org[0] || (i > 0 && org[i] != org[i - 1])) { pos = i; break; }
      if (r.chance(1, 2)) (*w)[pos] = r.byte(); else { w->erase(w->begin() + (long)pos); gaps->resize(w->size(), 0); }
      return "ack-changed@" + std::to_string(pos); }
    case 6: w->resize(pos); gaps->resize(pos, 0); return "truncated-by-syn@" + std::to_string(pos);
    case 7: if (pos == 0) pos = 1; (*gaps)[pos] = (int64_t)r.range(100, 400) * MS; return "silent-gap@" + std::to_string(pos);
    case 8: { // NAK twice
      std::vector<uint8_t> m = {t.qq, t.zz, t.pb, t.sb, (uint8_t)t.data.size()};
      m.insert(m.end(), t.data.begin(), t.data.end());
      w->clear();
      for (int k = 0; k < 2; k++) { auto x = specWire(m, r.chance(1, 2) ? 0x31 : 0); w->insert(w->end(), x.begin(), x.end()); w->push_back(0xFF); }
      gaps->assign(w->size(), 0);
      return "second-nak"; }
    case 9: w->insert(w->begin() + (long)pos, r.byte()); gaps->resize(w->size(), 0); return "extra-byte@" + std::to_string(pos);
    case 12: { // perfectly formed, CRC-correct telegram whose source is not a master address
      Telegram x = t;
      do { x.qq = r.byte(); } while (specIsMaster(x.qq) || x.qq == 0xA9 || x.qq == 0xAA || x.qq == x.zz);
      w->clear(); org.clear();
      wireOf(x, false, false, false, false, w, &org);
      gaps->assign(w->size(), 0);
      return "non-master-source-valid-crc"; }
    case 13: { // invalid escape pair (a9 followed by >01) inside the data, CRC computed over exactly these wire bytes
      Telegram x = t;
      if (x.data.empty()) x.data.push_back(0xAA);
      x.data[r.below((uint32_t)x.data.size())] = 0xAA;
      std::vector<uint8_t> m = {x.qq, x.zz, x.pb, x.sb, (uint8_t)x.data.size()};
      m.insert(m.end(), x.data.begin(), x.data.end());
      std::vector<uint8_t> wire;
      for (uint8_t b : m) specEscape(b, &wire);
      // turn the first "a9 01" of the data into "a9 xx"
      for (size_t k = 5; k + 1 < wire.size(); k++) if (wire[k] == 0xA9 && wire[k + 1] == 0x01) { wire[k + 1] = r.pick(std::vector<uint8_t>{0x02, 0x03, 0x80, 0xFF, 0xA9}); break; }
      uint8_t crc = 0;
      for (uint8_t b : wire) crc = specCrcStep(b, crc);
      specEscape(crc, &wire);
      if (x.zz != 0xFE) wire.push_back(0x00);
      if (x.zz != 0xFE && !specIsMaster(x.zz)) { auto sp = specWire({0x00}); wire.insert(wire.end(), sp.begin(), sp.end()); wire.push_back(0x00); }
      *w = wire;
      gaps->assign(w->size(), 0);
      return "bad-escape-consistent-crc"; }
    case 14: { // destination invalid (own source, or escaped a9/aa) with correct CRC
      Telegram x = t;
      x.zz = r.pick(std::vector<uint8_t>{x.qq, 0xA9, 0xAA});
      w->clear(); org.clear();
      std::vector<uint8_t> m = {x.qq, x.zz, x.pb, x.sb, (uint8_t)x.data.size()};
      m.insert(m.end(), x.data.begin(), x.data.end());
      *w = specWire(m);
      w->push_back(0x00);
      if (!specIsMaster(x.zz)) { auto sp = specWire({0x01, 0x55}); w->insert(w->end(), sp.begin(), sp.end()); w->push_back(0x00); }
      gaps->assign(w->size(), 0);
      return "zz-invalid-valid-crc"; }
    case 15: { // stray symbols directly after SYN (escape symbol alone or escaped pair, lone address) cut off by the next SYN
      static const std::vector<std::vector<uint8_t>> frags = {{0xA9}, {0xA9, 0x00}, {0xA9, 0x01}, {0xA9, 0xA9}, {0x10}, {0x10, 0xA9}, {0x31, 0x08, 0xA9}};
      *w = frags[r.below((uint32_t)frags.size())];
      if ((*w)[0] != 0xA9 && r.chance(1, 2)) (*w)[0] = t.qq;
      gaps->assign(w->size(), 0);
      return "stray-after-syn"; }
    case 10: { // CRC of the last part wrong
      (*w)[t.zz == 0xFE ? n - 1 : n - (specIsMaster(t.zz) ? 2 : 2)] ^= 0x01; return "crc-flip"; }
    default: { // ACK although the master CRC is wrong
      std::vector<uint8_t> m = {t.qq, t.zz, t.pb, t.sb, (uint8_t)t.data.size()};
      m.insert(m.end(), t.data.begin(), t.data.end());
      *w = specWire(m, 0x40);
      if (t.zz != 0xFE) w->push_back(0x00);
      gaps->assign(w->size(), 0);
      return "ack-on-bad-crc"; }
  }
}

struct C01Case { Config cfg; std::vector<Item> items; std::vector<std::string> desc; };

static void buildC01(Rng& r, C01Case* c, int nseg) {
  Item s; s.kind = Item::SYN;
  for (int i = 0; i < 3; i++) c->items.push_back(s);
  for (int k = 0; k < nseg; k++) {
    int what = r.range(0, 9);
    if (what < 1) {
      for (int i = r.range(1, 4); i > 0; i--) c->items.push_back(s);
      continue;
    }
    Telegram t = randTelegram(r, c->cfg);
    Item it; it.kind = Item::TELEGRAM;
    if (what < 6) {
      bool nm = r.chance(1, 5), ns = r.chance(1, 5);
      wireOf(t, nm, ns, r.chance(1, 2), r.chance(1, 2), &it.bytes, &it.origins);
      c->desc.push_back("ok");
    } else {
      std::string d = corrupt(r, t, &it.bytes, &it.gaps);
      it.origins.assign(it.bytes.size(), 'F');
      c->desc.push_back(d);
      st.hist["corruptions"][d.substr(0, d.find('@'))]++;
    }
    // the slot: SYN then the fragment; occasionally a second SYN or a late start
    if (c->cfg.generateSyn && r.chance(1, 3)) {
      it.waitHostSyn = true;      // the other participants are silent until the host generates the SYN; the fragment starts right after it
      c->items.push_back(it);
      st.n["fragments_after_host_syn"]++;
      if (r.chance(1, 6)) c->items.push_back(s);
      continue;
    }
    c->items.push_back(s);
    // a late start after a long silence; not when the host generates SYNs itself: where the start falls relative to the host's own SYN
    // (around the expiry of its receive timeout or not) would be left to chance and the expectation with it
    if (!c->cfg.generateSyn && r.chance(1, 25)) it.gap = (int64_t)r.range(100, 300) * MS;
    c->items.push_back(it);
    if (r.chance(1, 6)) c->items.push_back(s);
  }
  c->items.push_back(s);
  c->items.push_back(s);
}

static std::string telStr(const std::vector<uint8_t>& m, const std::vector<uint8_t>& s) { return hex(m) + "/" + hex(s); }

static bool runC01(Rng& r, const C01Case& c, const std::vector<size_t>& chunks, int burst, const std::string& tag, std::vector<RefTelegram>* refOut,
                   std::vector<Reported>* repOut) {
  World w;
  w.cfg = c.cfg;
  w.chunks = chunks;
  w.start(&r);
  w.bus.burst = burst;
  if (burst > 1) w.bus.gluePct = r.pick(std::vector<int>{0, 30, 100});   // a SYN may arrive together with the symbols that follow it
  w.bus.autoSyn = !c.cfg.generateSyn;   // after the script the sync generator keeps the bus alive for a few more SYNs (unless the host generates them)
  w.bus.autoSynBudget = 6;
  for (auto& it : c.items) w.bus.script.push_back(it);
  bool fin = w.run();
  st.n["steps"] += w.steps;
  st.n["bus_bytes"] += (long long)w.bus.log.size();
  if (!fin) { violation("c01-no-quiescence", tag + " " + c.cfg.str() + " handler did not become idle within the step budget"); return false; }
  std::vector<RefTelegram> ref;
  RefParser::parse(w.bus.log, &ref);
  std::vector<Reported> rep;
  for (auto& m : w.lis.msgs) if (m.dir == md_recv) rep.push_back(m);
  st.n["telegrams_expected"] += (long long)ref.size();
  st.n["telegrams_reported"] += (long long)rep.size();
  for (auto& m : w.lis.msgs) if (m.dir != md_recv) { violation("c01-non-passive-report", tag + " " + c.cfg.str()); return false; }
  if (c.cfg.readOnly && w.bus.hostBytes > 0) { violation("c01-readonly-transmits", tag + " " + c.cfg.str()); return false; }
  if (c.cfg.generateSyn) { st.n["gensyn_runs"]++; for (auto& e : w.bus.log) if (e.origin == 'H' && e.hostWrote == 0xAA) st.n["host_auto_syns"]++; }
  if (g_verbose) { printf("BUS %s\n", logHex(w.bus.log).c_str()); for (auto& m : w.lis.msgs) printf("REP %s\n", telStr(m.master, m.slave).c_str()); for (auto& t : ref) printf("REF %s\n", telStr(t.master, t.slave).c_str());
    std::string sts; for (auto& x : w.lis.states) sts += std::to_string((int)x.first) + ":" + std::to_string((int)x.second) + " "; printf("STATES %s\n", sts.c_str());
    std::string dg; for (auto& x : w.handler->diag) dg += x + "|"; printf("DIAG %s\n", dg.c_str()); if (w.tdev) printf("TRACE %s\n", w.tdev->trace.c_str()); }
  // known defect class: the handler stops draining the transport buffer when it reports an error for a symbol and then
  // times out waiting for new data although data is buffered (see known_findings.json)
  std::string sfx = w.tdev->staleBufferTimeouts > 0 ? ":buffered-data-timeout" : "";
  st.n["runs_with_stale_buffer_timeouts"] += w.tdev->staleBufferTimeouts > 0 ? 1 : 0;
  size_t n = std::min(ref.size(), rep.size());
  for (size_t i = 0; i < n; i++) {
    if (ref[i].master != rep[i].master || ref[i].slave != rep[i].slave) {
      // find out whether it is an extra or a missing one
      bool extra = true;
      for (size_t k = i; k < ref.size(); k++) if (ref[k].master == rep[i].master && ref[k].slave == rep[i].slave) extra = false;
      size_t from = ref[i].firstIdx > 12 ? ref[i].firstIdx - 12 : 0;
      std::string key = extra ? "c01-reported-invalid" : "c01-missed-valid";
      std::string nm = specIsMaster(rep[i].master.size() ? rep[i].master[0] : 0) ? "" : ":non-master-source";
      violation(key + (extra ? nm : "") + sfx, tag + " " + c.cfg.str() + " #" + std::to_string(i) + " reported " + telStr(rep[i].master, rep[i].slave) + " expected " + telStr(ref[i].master, ref[i].slave) +
                " bus ..." + logHex(w.bus.log, from, ref[i].endIdx + 6));
      return false;
    }
  }
  if (rep.size() > ref.size()) {
    auto& x = rep[n];
    std::string nm = specIsMaster(x.master.size() ? x.master[0] : 0) ? "" : ":non-master-source";
    violation("c01-reported-invalid" + nm + sfx, tag + " " + c.cfg.str() + " extra report " + telStr(x.master, x.slave) + " bus " + logHex(w.bus.log).substr(0, 600));
    return false;
  }
  if (ref.size() > rep.size()) {
    auto& x = ref[n];
    size_t from = x.firstIdx > 16 ? x.firstIdx - 16 : 0;
    violation("c01-missed-valid" + sfx, tag + " " + c.cfg.str() + " not reported " + telStr(x.master, x.slave) + " bus ..." + logHex(w.bus.log, from, x.endIdx + 4));
    return false;
  }
  if (refOut) *refOut = ref;
  if (repOut) *repOut = rep;
  return true;
}


static void modeC01(Rng& r0, long ncases) {
  static const std::vector<std::vector<size_t>> CH = {{}, {1}, {2, 1, 3}, {7}, {1, 1, 5, 2}};
  for (long ci = 0; ci < ncases; ci++) {
    if (g_only >= 0 && ci != g_only) continue;
    Rng r(g_seed * 1000003ULL + (uint64_t)ci);   // every case has its own stream: "only=<case>" replays it
    C01Case c;
    c.cfg.own = MASTERS[r.below(25)];
    c.cfg.readOnly = r.chance(1, 4);
    c.cfg.answer = !c.cfg.readOnly && r.chance(1, 3);
    c.cfg.lockCount = r.pick(std::vector<unsigned>{0, 0, 3, 5, 25});
    c.cfg.generateSyn = !c.cfg.readOnly && r.chance(1, 4);   // then the host is the only SYN generator after the script's own SYNs
    buildC01(r, &c, r.range(3, 14));
    bool hasOk = false, hasBad = false;
    for (auto& d : c.desc) { if (d == "ok") hasOk = true; else hasBad = true; }
    if (hasOk && hasBad) st.n["distinct_nontrivial"]++;
    current("c01 case " + std::to_string(ci));
    for (int enh = 0; enh < 2; enh++) {
      c.cfg.enhanced = enh == 1;
      for (size_t k = 0; k < 3; k++) {
        size_t chi = k == 0 ? 0 : 1 + r.below((uint32_t)CH.size() - 1);
        int burst = k == 0 ? 1 : r.pick(std::vector<int>{1, 2, 3, 5});   // arrival bursts stay below the receive timeout (5 x 4.2 ms < 35 ms)
        st.n["evaluations"]++;
        std::string tag = "case=" + std::to_string(ci) + " chunking#" + std::to_string(chi) + " burst=" + std::to_string(burst);
        if (!runC01(r, c, CH[chi], burst, tag, nullptr, nullptr)) { enh = 2; break; }
      }
    }
    if (ci < 2) {
      std::string d; for (auto& x : c.desc) d += x + " ";
      st.sample("samples", c.cfg.str() + " segments: " + d);
    }
  }
}


// ---- C02 / C03 / C15: active scenarios ---------------------------------------------------------------------------------
struct Submission { int64_t at; ObsRequest* req; bool submitted = false; };

struct ActiveCase {
  Config cfg;
  std::vector<Item> items;                 // foreign traffic
  std::vector<PeerScript> peers;
  std::vector<std::pair<int64_t, std::vector<uint8_t>>> requests;   // (submit offset ns, master bytes)
  long echoCorruptAt = -1;
  std::vector<AnswerDef> answers;
  std::vector<AnswerDef> earlierAnswers;     // registered first under keys that `answers` registers again (the later registration counts)
  std::string desc;
  bool respBurst = false; // the addressed participant's acknowledge + response arrive in one piece
  std::vector<size_t> chunks;   // how many of the available transport bytes each read hands over (empty: all)
  long dropArbWriteAt = -1;  // which arbitration write (plain device) is swallowed without echo, followed by a SYN
  int strayAfterArb = 0;  // percent of the won arbitrations (plain device) that are followed by a stray symbol right behind the own address
  int echoGlue = 0;       // percent of the reactions to a command that arrive in one read together with the echo of the host's CRC
  int synGlue = 0;        // percent of the SYNs that reach the host in one read together with the start of a following foreign telegram
  int burst = 1;          // foreign traffic reaches the host in arrival bursts of up to that many bytes
  int busSynMode = 0;     // 0: the bus has its own SYN generator, 1: it has none (the host must generate), 2: it fails after the script
};

static std::vector<uint8_t> randMaster(Rng& r, uint8_t own, int kind = -1) {
  std::vector<uint8_t> m;
  m.push_back(own);
  if (kind < 0) kind = r.range(0, 9);
  uint8_t zz;
  if (kind < 2) zz = 0xFE;
  else if (kind < 4) { do { zz = MASTERS[r.below(25)]; } while (zz == own); }
  else { do { zz = r.chance(1, 2) ? (uint8_t)(MASTERS[r.below(25)] + 5) : r.byte(); } while (zz == 0xA9 || zz == 0xAA || zz == own || specIsMaster(zz) || zz == 0xFE); }
  m.push_back(zz);
  m.push_back(biasedByte(r)); m.push_back(biasedByte(r));
  size_t nn = (size_t)r.range(0, 16);
  m.push_back((uint8_t)nn);
  for (size_t i = 0; i < nn; i++) m.push_back(biasedByte(r));
  return m;
}

static PeerScript randPeer(Rng& r, bool hostile) {
  PeerScript p;
  for (int k = 0; k < 2; k++) {
    p.cmdAck[k] = !hostile || r.chance(3, 5) ? 0 : r.range(1, 4);
    p.respCrcXor[k] = hostile && r.chance(1, 4) ? (uint8_t)r.range(1, 255) : 0;
    p.respCut[k] = hostile && r.chance(1, 8) ? r.range(0, 6) : -1;
  }
  p.otherSym = r.byte();
  if (p.otherSym == 0x00 || p.otherSym == 0xFF || p.otherSym == 0xAA) p.otherSym = 0x42;
  size_t sn = (size_t)r.range(0, 16);
  p.resp.push_back((uint8_t)sn);
  for (size_t i = 0; i < sn; i++) p.resp.push_back(biasedByte(r));
  if (hostile && r.chance(1, 10)) p.resp[0] = (uint8_t)(sn + r.range(1, 3));   // announces more than it sends
  p.respAltSecond = r.chance(1, 3);
  return p;
}

struct ActiveResult { std::vector<ReqInfo> reqs; long adverse = 0, exchanges = 0, arbLost = 0, hostBytes = 0, autoSyns = 0, answers = 0; bool finished = false; };

static bool runActive(Rng& r, const ActiveCase& c, const std::string& tag, const std::string& prefixFilter, ActiveResult* out) {
  World w;
  w.cfg = c.cfg;
  w.start(&r);
  w.bus.autoSyn = c.busSynMode != 1;
  w.bus.echoCorruptAt = c.echoCorruptAt;
  w.bus.respBurst = c.respBurst;
  w.bus.burst = c.burst;
  w.bus.gluePct = c.synGlue;
  w.chunks = c.chunks;
  w.bus.strayAfterArbPct = c.strayAfterArb;
  w.bus.dropArbWriteAt = c.dropArbWriteAt;
  w.bus.echoGluePct = c.echoGlue;
  for (auto& p : c.peers) w.bus.peers.push_back(p);
  Item s; s.kind = Item::SYN;
  for (int i = 0; i < 4; i++) w.bus.script.push_back(s);
  for (auto& it : c.items) w.bus.script.push_back(it);
  // answers (C15)
  for (int pass = 0; pass < 2; pass++) for (auto& a : pass == 0 ? c.earlierAnswers : c.answers) {
    SlaveSymbolString resp;
    for (uint8_t b : a.resp) resp.push_back(b);
    w.handler->setAnswer(a.anySrc ? SYN : a.src, a.dst, a.pb, a.sb, a.id.data(), a.id.size(), resp);
  }
  std::vector<std::unique_ptr<ObsRequest>> reqObjs;
  std::vector<Submission> subs;
  int64_t t0 = g.now;
  for (auto& rq : c.requests) {
    MasterSymbolString m;
    for (uint8_t b : rq.second) m.push_back(b);
    reqObjs.emplace_back(new ObsRequest(m, false));
    subs.push_back({t0 + rq.first, reqObjs.back().get()});
  }
  std::vector<int64_t> submittedAt(subs.size(), -1);
  long maxSteps = 60000;
  int quiet = 0;
  bool fin = false;
  while (w.steps < maxSteps) {
    for (size_t i = 0; i < subs.size(); i++) if (!subs[i].submitted && subs[i].at <= g.now) {
      subs[i].submitted = true; submittedAt[i] = g.now;
      result_t ar = w.handler->addRequest(subs[i].req, false);
      if (ar != RESULT_OK) { subs[i].req->notifications = 1; subs[i].req->result = ar; subs[i].req->doneAt = g.now; }
    }
    w.handler->step();
    w.steps++;
    bool allDone = true;
    for (auto& sb : subs) if (!sb.submitted || sb.req->notifications == 0) allDone = false;
    if (c.busSynMode == 2 && w.bus.script.empty() && w.bus.autoSyn) { w.bus.autoSyn = false; }
    if (allDone && w.bus.script.empty() && !w.bus.awaitHostAnswer) {
      if (w.bus.autoSynBudget > 4) w.bus.autoSynBudget = 4;
      if (w.bus.scriptDone() && g.rx.empty() && ++quiet > 6) { fin = true; break; }
    }
    if (g.now - t0 > 120LL * 1000 * MS) break;     // two virtual minutes
  }
  st.n["steps"] += w.steps;
  st.n["bus_bytes"] += (long long)w.bus.log.size();
  st.n["syn_glued_with_following_symbols"] += w.bus.glued;
  st.n["echo_glued_with_reaction"] += w.bus.echoGlued;
  st.n["stray_symbol_behind_own_address"] += w.bus.strays;
  st.n["swallowed_arbitration_writes"] += (long long)w.bus.dropped.size();
  for (auto& sb : subs) w.handler->takeFinished(sb.req);
  MonConfig mc{c.cfg.own, c.cfg.readOnly, c.cfg.generateSyn, c.cfg.enhanced, c.cfg.answer, c.answers};
  if (c.burst > 1 || c.synGlue > 0 || c.respBurst) mc.deliveryLag = 4 * SYM;      // grouped delivery: up to 3 symbol times late
  std::vector<ReqInfo> reqs;
  for (size_t i = 0; i < subs.size(); i++) {
    ReqInfo ri;
    ri.master = c.requests[i].second;
    ri.submitted = submittedAt[i] < 0 ? (int64_t)1 << 62 : submittedAt[i];
    ri.done = subs[i].req->notifications ? subs[i].req->doneAt : -1;
    ri.result = subs[i].req->result;
    ri.slave = subs[i].req->slave;
    ri.notifications = subs[i].req->notifications;
    reqs.push_back(ri);
  }
  TxMonitor mon;
  mon.run(w.bus.log, reqs, mc, &w.bus.dropped);
  bool bad = false;
  auto report = [&](const std::string& key, const std::string& detail) {
    if (key.compare(0, prefixFilter.size(), prefixFilter) != 0 && !prefixFilter.empty()) { st.n["other_property_alarms"]++; return; }
    violation(key, tag + " " + c.cfg.str() + " " + c.desc + ": " + detail);
    bad = true;
  };
  for (auto& v : mon.viol) report(v.first, v.second);
  if (!fin) report(prefixFilter.empty() ? "c02-request-never-completes" : prefixFilter + "-no-quiescence", "requests did not complete within two virtual minutes; bus " + logHex(w.bus.log).substr(0, 400));
  // truthful result (C02): OK iff a complete valid exchange of this request is on the wire; then slave data and md_send agree
  std::vector<Reported> sent;
  for (auto& m : w.lis.msgs) if (m.dir == md_send) sent.push_back(m);
  size_t sentUsed = 0;
  for (auto& ri : reqs) {
    if (ri.notifications == 0) continue;
    if (ri.notifications > 1) report("c02-notified-twice", vf::hex(ri.master));
    bool ok = ri.result == RESULT_OK;
    if (ok != ri.validSeen) report(ok ? "c02-success-without-valid-exchange" : "c02-error-despite-valid-exchange",
      "request " + vf::hex(ri.master) + " result " + std::to_string(ri.result) + " exchanges " + std::to_string(ri.exchanges) + " bus " + logHex(w.bus.log).substr(0, 700));
    if (ok && ri.validSeen) {
      if (ri.slave != ri.validSlave && !(ri.validSlave.empty() && ri.slave.empty())) report("c02-wrong-slave-data", "request " + vf::hex(ri.master) + " got " + vf::hex(ri.slave) + " wire " + vf::hex(ri.validSlave));
      bool found = false;
      for (auto& m : sent) if (m.master == ri.master && (m.slave == ri.validSlave || ri.validSlave.empty())) found = true;
      if (!found) report("c02-no-sent-message-report", "request " + vf::hex(ri.master));
      sentUsed++;
    }
    unsigned maxEx = (c.cfg.busLostRetries + 1);
    if ((unsigned)ri.exchanges > maxEx + 0 && false) report("c02-too-many-exchanges", std::to_string(ri.exchanges));
  }
  if (sent.size() > sentUsed) report("c02-sent-report-without-success", std::to_string(sent.size()) + " md_send reports, " + std::to_string(sentUsed) + " successful requests");
  long answerReports = 0;
  for (auto& m : w.lis.msgs) if (m.dir == md_answer) answerReports++;
  if (!c.answers.empty() && answerReports != mon.answersCompleted && mon.viol.empty())
    report("c15-answer-report-count", std::to_string(answerReports) + " md_answer reports for " + std::to_string(mon.answersCompleted) + " completed answers; bus " + logHex(w.bus.log).substr(0, 600));
  for (auto& m : w.lis.msgs) if (m.dir == md_answer && c.answers.empty()) report("c15-answer-report-without-registration", telStr(m.master, m.slave));
  if (g_verbose) {
    printf("BUS %s\n", logHex(w.bus.log).c_str());
    for (auto& ri : reqs) printf("REQ %s result=%d notifications=%d exchanges=%d valid=%d slave=%s submitted=%lld done=%lld\n", vf::hex(ri.master).c_str(), ri.result, ri.notifications, ri.exchanges, ri.validSeen, vf::hex(ri.slave).c_str(),
                                 (long long)(ri.submitted / 1000000 % 10000000), (long long)(ri.done / 1000000 % 10000000));
    printf("TRACE %s\n", w.tdev->trace.c_str());
  }
  if (out) {
    out->reqs = reqs; out->adverse = mon.adverse; out->exchanges = mon.exchangesSeen; out->arbLost = mon.arbLost; out->hostBytes = mon.hostBytes;
    out->autoSyns = mon.autoSyns; out->answers = mon.answersSeen; out->finished = fin;
  }
  st.n["host_bytes"] += mon.hostBytes; st.n["exchanges"] += mon.exchangesSeen; st.n["arbitrations_lost"] += mon.arbLost;
  st.n["adverse_events"] += mon.adverse; st.n["auto_syns"] += mon.autoSyns;
  return !bad;
}

/** a foreign telegram item that takes part in arbitration */
static Item foreignTelegram(Rng& r, uint8_t qq, const Config& cfg) {
  Telegram t = randTelegram(r, cfg);
  t.qq = qq;
  if (t.zz == qq) t.zz = 0xFE;
  // not addressed to the host
  if (t.zz == cfg.own || t.zz == (uint8_t)(cfg.own + 5)) t.zz = 0xFE;
  Item it; it.kind = Item::TELEGRAM; it.arbitrates = true;
  wireOf(t, r.chance(1, 8), r.chance(1, 8), false, false, &it.bytes, &it.origins);
  return it;
}

static void modeActive(long ncases, const std::string& which) {
  for (long ci = 0; ci < ncases; ci++) {
    if (g_only >= 0 && ci != g_only) continue;
    Rng r(g_seed * 1000003ULL + (uint64_t)ci + 77);
    ActiveCase c;
    c.cfg.own = MASTERS[r.below(25)];
    c.cfg.enhanced = r.chance(1, 2);
    c.cfg.lockCount = r.pick(std::vector<unsigned>{0, 0, 3, 5});
    c.cfg.busLostRetries = r.pick(std::vector<unsigned>{0, 1, 3});
    c.cfg.failedSendRetries = 0;
    c.cfg.readOnly = which == "c03" && r.chance(1, 8);
    c.cfg.generateSyn = which == "c03" && r.chance(1, 4);
    c.busSynMode = c.cfg.generateSyn ? r.range(0, 2) : 0;
    bool corruptFirstAutoSyn = c.cfg.generateSyn && c.busSynMode == 1 && r.chance(1, 2);
    c.respBurst = r.chance(1, 3);
    c.burst = which == "c03" && r.chance(1, 3) ? r.pick(std::vector<int>{2, 3, 5}) : 1;
    bool hostileTraffic = which == "c03";
    c.synGlue = r.chance(1, 3) ? r.pick(std::vector<int>{20, 50, 100}) : 0;
    c.echoGlue = r.chance(1, 3) ? r.pick(std::vector<int>{30, 100}) : 0;
    c.strayAfterArb = !c.cfg.enhanced && r.chance(1, 5) ? r.pick(std::vector<int>{30, 100}) : 0;
    c.dropArbWriteAt = !c.cfg.enhanced && r.chance(1, 5) ? r.range(0, 3) : -1;
    // several transport bytes at once (groups, glue) may be cut anywhere by the read size, also inside a two byte adapter sequence
    // (not together with symbols of others grouped behind a SYN: a short read that hands over the SYN alone makes the host arbitrate
    // "directly after the SYN" as far as it can know while the wire already carries the next telegram - nothing the host could avoid)
    if (c.synGlue == 0 && c.burst == 1 && c.strayAfterArb == 0 && r.chance(1, 2)) c.chunks = r.pick(std::vector<std::vector<size_t>>{{1}, {2, 1, 3}, {3}, {1, 1, 5, 2}, {2}});
    int nreq = r.range(1, 3);
    int64_t at = (int64_t)r.range(150, 400) * MS;
    for (int k = 0; k < nreq; k++) {
      // (the requests of a scenario carry different bytes: which of two identical ones an exchange on the wire belongs to cannot be told)
      std::vector<uint8_t> rm = randMaster(r, c.cfg.own);
      for (int tries = 0; tries < 20; tries++) {
        bool dup = false;
        for (auto& o : c.requests) if (o.second == rm) dup = true;
        if (!dup) break;
        rm = randMaster(r, c.cfg.own);
      }
      c.requests.push_back({at, rm});
      at += (int64_t)r.range(0, 300) * MS + (r.chance(1, 3) ? (int64_t)r.range(0, 4000) * 1000 : 0);
      for (unsigned e = 0; e <= c.cfg.busLostRetries + 1; e++) c.peers.push_back(randPeer(r, which == "c02" ? r.chance(1, 2) : r.chance(1, 5)));
    }
    if (r.chance(1, which == "c02" ? 3 : 6)) c.echoCorruptAt = r.range(0, 40);
    if (corruptFirstAutoSyn) c.echoCorruptAt = 0;      // the host's first byte on a bus without generator is its first AUTO-SYN
    Item s; s.kind = Item::SYN;
    if (hostileTraffic) {
      int nf = r.range(2, 12);
      for (int k = 0; k < nf; k++) {
        // competitor addresses around the own one: same / other priority class, higher / lower
        uint8_t q;
        int kk = r.range(0, 3);
        if (kk == 0) q = MASTERS[r.below(25)];
        else if (kk == 1) q = (uint8_t)((c.cfg.own & 0x0F) | (MASTERS[r.below(25)] & 0xF0));   // same priority class
        else q = (uint8_t)((c.cfg.own & 0xF0) | (MASTERS[r.below(25)] & 0x0F));
        if (!specIsMaster(q) || q == c.cfg.own) q = MASTERS[(r.below(24) + 1) % 25] == c.cfg.own ? 0x10 : MASTERS[r.below(25)];
        if (q == c.cfg.own) q = (uint8_t)(c.cfg.own == 0x10 ? 0x30 : 0x10);
        s.gap = r.chance(1, 3) ? (int64_t)r.range(5, 44) * MS : 0;
        c.items.push_back(s);
        c.items.push_back(foreignTelegram(r, q, c.cfg));
        if (r.chance(1, 6)) { Item n; n.kind = Item::BYTES; for (int b = r.range(1, 4); b > 0; b--) n.bytes.push_back(r.byte()); c.items.push_back(n); }
        if (r.chance(1, 8)) { Item gp; gp.kind = Item::GAP; gp.gap = (int64_t)r.range(100, 1500) * MS; c.items.push_back(gp); }
        for (int i = r.range(0, 3); i > 0; i--) { s.gap = (int64_t)r.range(20, 44) * MS; c.items.push_back(s); }
      }
      s.gap = 0;
    }
    if (c.synGlue && !hostileTraffic) {
      // somebody else uses the bus as well: telegrams of another master queue up behind the host's exchanges and start right after a SYN
      Item gp; gp.kind = Item::GAP; gp.gap = c.requests[0].first > 60 * MS ? c.requests[0].first - (int64_t)r.range(10, 60) * MS : 10 * MS;
      c.items.push_back(gp);
      for (int k = r.range(2, 6); k > 0; k--) {
        uint8_t q = MASTERS[r.below(25)];
        if (q == c.cfg.own) q = (uint8_t)(c.cfg.own == 0x10 ? 0x30 : 0x10);
        s.gap = 0;
        c.items.push_back(s);
        c.items.push_back(foreignTelegram(r, q, c.cfg));
      }
    }
    // stray symbols between SYNs while requests wait for their arbitration slot (a lone escape symbol leaves state behind)
    if (r.chance(1, 3)) {
      std::vector<Item> pre;
      for (int k = r.range(1, 4); k > 0; k--) {
        Item sy; sy.kind = Item::SYN; sy.gap = (int64_t)r.range(20, 44) * MS;
        Item nz; nz.kind = Item::BYTES; nz.bytes = r.pick(std::vector<std::vector<uint8_t>>{{0xA9}, {0xA9}, {0xA9, 0x00}, {0x55}, {0xA9, 0x01}});
        pre.push_back(sy); pre.push_back(nz);
      }
      if (r.chance(1, 2)) c.items.insert(c.items.begin(), pre.begin(), pre.end()); else c.items.insert(c.items.end(), pre.begin(), pre.end());
      // spread over the time in which the requests are submitted
      if (!c.requests.empty() && r.chance(1, 2)) { Item gp; gp.kind = Item::GAP; gp.gap = c.requests[0].first > 200 * MS ? c.requests[0].first - 150 * MS : 50 * MS; c.items.insert(c.items.begin(), gp); }
    }
    c.desc = which + " chunks=" + std::to_string(c.chunks.size()) + " glue=" + std::to_string(c.synGlue) + " burst=" + std::to_string(c.burst) + " respburst=" + std::to_string(c.respBurst) + " bussyn=" + std::to_string(c.busSynMode) + " nreq=" + std::to_string(nreq) + " foreign=" + std::to_string(c.items.size()) + " echoCorruptAt=" + std::to_string(c.echoCorruptAt);
    current(which + " case " + std::to_string(ci));
    st.n["evaluations"]++;
    ActiveResult res;
    std::string tag = "case=" + std::to_string(ci);
    runActive(r, c, tag, g_filter.empty() ? which : g_filter, &res);
    if (res.adverse > 0 && res.hostBytes > 0) st.n["distinct_nontrivial"]++;
    if (c.cfg.readOnly) st.n["readonly_histories"]++;
    for (auto& ri : res.reqs) { st.hist["request_results"][std::to_string(ri.result)]++; }
    if (ci < 2) st.sample("samples", c.cfg.str() + " " + c.desc + " first request " + (c.requests.empty() ? "" : vf::hex(c.requests[0].second)));
  }
}

static void modeC15(long ncases) {
  for (long ci = 0; ci < ncases; ci++) {
    if (g_only >= 0 && ci != g_only) continue;
    Rng r(g_seed * 1000003ULL + (uint64_t)ci + 1500);
    ActiveCase c;
    c.cfg.own = MASTERS[r.below(25)];
    c.cfg.enhanced = r.chance(1, 2);
    c.cfg.answer = true;
    c.synGlue = r.chance(1, 3) ? r.pick(std::vector<int>{30, 100}) : 0;     // SYN and the start of the telegram in one read
    if (c.synGlue == 0 && r.chance(1, 3)) c.chunks = r.pick(std::vector<std::vector<size_t>>{{1}, {2, 1, 3}, {3}, {1, 1, 5, 2}, {2}});
    c.cfg.lockCount = r.pick(std::vector<unsigned>{0, 3});
    uint8_t ownSlave = (uint8_t)(c.cfg.own + 5);
    // registered answers
    int na = r.range(1, 8);
    std::vector<uint8_t> pbsbPool = {0xb5, 0x09, 0x07, 0x04, 0xb5, 0x11};
    for (int k = 0; k < na; k++) {
      AnswerDef a;
      a.anySrc = r.chance(1, 2);
      a.src = MASTERS[r.below(25)];
      if (a.src == c.cfg.own) a.src = (uint8_t)(c.cfg.own == 0x10 ? 0x30 : 0x10);
      int dk = r.range(0, 9);
      a.dst = dk < 5 ? ownSlave : dk < 8 ? c.cfg.own : (uint8_t)r.pick(std::vector<uint8_t>{0x08, 0x15, 0x52});
      size_t pi = r.below(3) * 2;
      a.pb = pbsbPool[pi]; a.sb = pbsbPool[pi + 1];
      size_t idl = (size_t)r.range(0, 4);
      if (!c.answers.empty() && r.chance(1, 2)) {      // share a prefix with an earlier answer
        a.id = c.answers[r.below((uint32_t)c.answers.size())].id;
        if (a.id.size() > idl) a.id.resize(idl);
      }
      while (a.id.size() < idl) a.id.push_back(r.pick(std::vector<uint8_t>{0x00, 0x01, 0x0d, 0xa9, 0xaa, r.byte()}));
      if (specIsMaster(a.dst)) { size_t tl = (size_t)r.range(0, 6); a.resp.push_back((uint8_t)tl); for (size_t i = 0; i < tl; i++) a.resp.push_back(0); }   // only the length counts
      else { size_t sn = (size_t)r.range(0, 16); a.resp.push_back((uint8_t)sn); for (size_t i = 0; i < sn; i++) a.resp.push_back(biasedByte(r)); }
      // keys must be unique (a later registration with the same key replaces the earlier one)
      bool dup = false;
      for (auto& o : c.answers) if (o.dst == a.dst && o.pb == a.pb && o.sb == a.sb && o.id == a.id && ((o.anySrc == a.anySrc && (a.anySrc || o.src == a.src)) || specIsMaster(a.dst))) dup = true;   // for master destinations: one entry per ID (which of a source-specific and an any-source entry with different tail lengths wins is not specified)
      if (!dup) {
        c.answers.push_back(a);
        if (r.chance(1, 3)) {
          // the same key had been registered before with other data (answer command issued again, replaced ident answer): the later one counts
          AnswerDef e = a;
          e.resp.clear();
          if (specIsMaster(a.dst)) { size_t tl = (a.resp[0] + 1 + r.below(5)) % 7; e.resp.push_back((uint8_t)tl); for (size_t i = 0; i < tl; i++) e.resp.push_back(0); }
          else { size_t sn = (size_t)r.range(0, 16); e.resp.push_back((uint8_t)sn); for (size_t i = 0; i < sn; i++) e.resp.push_back(biasedByte(r)); if (e.resp == a.resp) e.resp[0] = (uint8_t)(sn ? 0 : 1), e.resp.resize(1 + e.resp[0], 0x5a); }
          c.earlierAnswers.push_back(e);
          st.n["answers_registered_twice"]++;
        }
      }
    }
    // telegrams from foreign masters
    Item s; s.kind = Item::SYN;
    int nt = r.range(2, 10);
    for (int k = 0; k < nt; k++) {
      const AnswerDef& a = c.answers[r.below((uint32_t)c.answers.size())];
      Telegram t;
      t.qq = a.anySrc || r.chance(1, 4) ? MASTERS[r.below(25)] : a.src;
      if (t.qq == c.cfg.own) t.qq = (uint8_t)(c.cfg.own == 0x10 ? 0x30 : 0x10);
      t.zz = r.chance(1, 8) ? (uint8_t)r.pick(std::vector<uint8_t>{ownSlave, c.cfg.own, 0x08, 0x15}) : a.dst;
      if (t.zz == t.qq) t.zz = ownSlave;
      t.pb = a.pb; t.sb = a.sb;
      if (r.chance(1, 10)) t.sb ^= 1;
      std::vector<uint8_t> d = a.id;
      int how = r.range(0, 9);
      if (how < 4) { size_t extra = specIsMaster(a.dst) && !r.chance(1, 4) ? a.resp[0] : (size_t)r.range(0, 12); for (size_t i = 0; i < extra; i++) d.push_back(biasedByte(r)); }
      else if (how < 5 && !d.empty()) d.resize(r.below((uint32_t)d.size()));
      else if (how < 7 && !d.empty()) { d[r.below((uint32_t)d.size())] ^= (uint8_t)(1 << r.below(8)); for (int i = r.range(0, 6); i > 0; i--) d.push_back(r.byte()); }
      else if (how < 8) { for (int i = r.range(0, 16 - (int)d.size()); i > 0; i--) d.push_back(0x00); }
      if (d.size() > 16) d.resize(16);
      t.data = d;
      std::vector<uint8_t> m = {t.qq, t.zz, t.pb, t.sb, (uint8_t)t.data.size()};
      m.insert(m.end(), t.data.begin(), t.data.end());
      Item it; it.kind = Item::TELEGRAM; it.arbitrates = true; it.expectAnswer = true;
      bool badCrc = r.chance(1, 6);
      it.bytes = specWire(m, badCrc ? (uint8_t)r.range(1, 255) : 0);
      it.origins.assign(it.bytes.size(), 'F');
      if (badCrc || r.chance(1, 3)) it.repeatBytes = specWire(m);
      for (int q = 0; q < 2; q++) it.answerReaction[q] = r.chance(2, 3) ? 0 : r.range(1, 3);
      if (badCrc && r.chance(1, 2)) {
        // another participant (e.g. the real device on an address the host answers for as well) rejects the damaged command with
        // NAK and the requester repeats it right away: the repetition is a history inside one telegram the host has to follow
        it.bytes.push_back(0xFF); it.origins.push_back('S');
        std::vector<uint8_t> good = specWire(m);
        for (uint8_t b : good) { it.bytes.push_back(b); it.origins.push_back('F'); }
        it.repeatBytes.clear();
        if (r.chance(1, 2)) it.answerReaction[0] = 1;      // ... and the response is rejected once (twice when [1] is NAK too)
        st.n["third_party_nak_then_repeat"]++;
      }
      c.items.push_back(s);
      c.items.push_back(it);
      for (int i = r.range(0, 2); i > 0; i--) c.items.push_back(s);
    }
    c.desc = "c15 answers=" + std::to_string(c.answers.size()) + " telegrams=" + std::to_string(nt);
    current("c15 case " + std::to_string(ci));
    st.n["evaluations"]++;
    ActiveResult res;
    runActive(r, c, "case=" + std::to_string(ci), g_filter.empty() ? "c15" : g_filter, &res);
    st.n["answers_by_host"] += res.answers;
    if (res.answers > 0) st.n["distinct_nontrivial"]++;
    if (ci < 2 || g_verbose) {
      std::string ad;
      for (auto& a : c.answers) ad += (a.anySrc ? "**" : hex1(a.src)) + ">" + hex1(a.dst) + ":" + hex1(a.pb) + hex1(a.sb) + "/" + hex(a.id) + "=" + hex(a.resp) + " ";
      st.sample("samples", c.cfg.str() + " answers: " + ad);
      if (g_verbose) printf("ANSWERS %s\n", ad.c_str());
    }
  }
}

int main(int argc, char** argv) {
  Args a(argc, argv);
  installDeathCallback();
  setFacilitiesLogLevel(-1, ll_none);
  std::string mode = a.str("mode", "c01");
  Rng r((uint64_t)a.num("seed", 1));
  g_seed = (uint64_t)a.num("seed", 1);
  g_only = a.num("only", -1);
  g_filter = a.str("filter", "");
  g_verbose = a.num("verbose", 0) != 0;
  long n = a.num("n", 100);
  if (mode == "c01") modeC01(r, n);
  if (mode == "c02" || mode == "c03") modeActive(n, mode);
  if (mode == "c15") modeC15(n);
  st.emit();
  return g_violations ? 1 : 0;
}
