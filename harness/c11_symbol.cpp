// C11 monitor: CRC-8, escaping, escaped-hex parsing and address classes of lib/ebus/symbol.cpp versus references
// written from the eBUS specification (bit-serial CRC with generator x^8+x^7+x^4+x^3+x+1, escape rules
// A9->A9 00 / AA->A9 01, master address table of the specification).
#include "hcommon.h"
#include "lib/ebus/symbol.h"
#include "lib/ebus/result.h"
#include <unordered_set>

using namespace ebusd;
using namespace vf;

// --- reference: eBUS spec 6.3 "CRC" bit-serial algorithm (data bits are shifted into the register LSB) ---
static uint8_t refCrcStep(uint8_t data, uint8_t crc) {
  for (int i = 0; i < 8; i++) {
    uint8_t poly = (crc & 0x80) ? 0x9B : 0;
    crc = (uint8_t)((crc & 0x7f) << 1);
    if (data & 0x80) crc |= 1;
    crc ^= poly;
    data = (uint8_t)(data << 1);
  }
  return crc;
}
static std::vector<uint8_t> refEscape(const std::vector<uint8_t>& in) {
  std::vector<uint8_t> o;
  for (uint8_t b : in) {
    if (b == 0xA9) { o.push_back(0xA9); o.push_back(0x00); }
    else if (b == 0xAA) { o.push_back(0xA9); o.push_back(0x01); }
    else o.push_back(b);
  }
  return o;
}
static uint8_t refCrc(const std::vector<uint8_t>& unescaped) {
  uint8_t crc = 0;
  for (uint8_t b : refEscape(unescaped)) crc = refCrcStep(b, crc);
  return crc;
}
// reference un-escaper: returns false for bare AA, dangling A9, A9 followed by >01
static bool refUnescape(const std::vector<uint8_t>& in, std::vector<uint8_t>* out) {
  out->clear();
  for (size_t i = 0; i < in.size(); i++) {
    uint8_t b = in[i];
    if (b == 0xAA) return false;
    if (b == 0xA9) {
      if (i + 1 >= in.size()) return false;
      uint8_t n = in[++i];
      if (n == 0x00) out->push_back(0xA9); else if (n == 0x01) out->push_back(0xAA); else return false;
    } else out->push_back(b);
  }
  return true;
}
// master addresses in the numbering of the specification (priority class = low nibble, sub address = high nibble)
static const uint8_t SPEC_MASTERS[25] = {
  0x00, 0x10, 0x30, 0x70, 0xF0, 0x01, 0x11, 0x31, 0x71, 0xF1, 0x03, 0x13, 0x33, 0x73, 0xF3,
  0x07, 0x17, 0x37, 0x77, 0xF7, 0x0F, 0x1F, 0x3F, 0x7F, 0xFF};

static Stats st;
static std::unordered_set<uint64_t> seen;

template <typename S> static std::vector<uint8_t> dataOf(const S& s) {
  std::vector<uint8_t> v;
  for (size_t i = 0; i < s.size(); i++) v.push_back(s[i]);
  return v;
}

static void checkCalc(const std::vector<uint8_t>& v) {
  MasterSymbolString m; SlaveSymbolString s;
  for (uint8_t b : v) { m.push_back(b); s.push_back(b); }
  uint8_t exp = refCrc(v);
  st.n["evaluations"] += 2;
  if (m.calcCrc() != exp) violation("calcCrc-master", "data=" + hex(v) + " got=" + hex1(m.calcCrc()) + " exp=" + hex1(exp));
  if (s.calcCrc() != exp) violation("calcCrc-slave", "data=" + hex(v) + " got=" + hex1(s.calcCrc()) + " exp=" + hex1(exp));
  bool nontriv = false;
  for (uint8_t b : v) if (b) nontriv = true;
  if (nontriv && seen.insert(fnv(v.data(), v.size(), 11)).second) st.n["distinct_nontrivial"]++;
}

static void checkParse(const std::vector<uint8_t>& esc, bool upper) {
  std::string h = hex(esc);
  if (upper) for (auto& c : h) c = (char)toupper(c);
  std::vector<uint8_t> exp;
  bool ok = refUnescape(esc, &exp);
  for (int master = 0; master < 2; master++) {
    MasterSymbolString m; SlaveSymbolString s;
    SymbolString* str = master ? (SymbolString*)&m : (SymbolString*)&s;
    result_t r = str->parseHexEscaped(h);
    st.n["evaluations"]++;
    std::vector<uint8_t> got;
    for (size_t i = 0; i < str->size(); i++) got.push_back((*str)[i]);
    if (ok) {
      if (r != RESULT_OK || got != exp)
        violation("parseHexEscaped-valid", "hex=" + h + " result=" + std::to_string(r) + " got=" + hex(got) + " exp=" + hex(exp));
    } else {
      if (r >= RESULT_OK) violation("parseHexEscaped-accepts-invalid", "hex=" + h + " result=" + std::to_string(r) + " got=" + hex(got));
    }
  }
  // parsing appends: a string parsed in two calls (cut where both pieces are complete escaped strings) gives the same symbols
  if (ok) for (size_t k = 1; k < esc.size(); k++) {
    std::vector<uint8_t> a(esc.begin(), esc.begin() + k), b(esc.begin() + k, esc.end()), ea, eb;
    if (!refUnescape(a, &ea) || !refUnescape(b, &eb)) continue;
    std::string ha = hex(a), hb = hex(b);
    MasterSymbolString m;
    result_t r1 = m.parseHexEscaped(ha), r2 = r1 == RESULT_OK ? m.parseHexEscaped(hb) : r1;
    st.n["evaluations"]++;
    st.n["parse_in_two_calls"]++;
    std::vector<uint8_t> got;
    for (size_t i = 0; i < m.size(); i++) got.push_back(m[i]);
    if (r2 != RESULT_OK || got != exp)
      violation("parseHexEscaped-append", "hex=" + ha + " then " + hb + " result=" + std::to_string(r2) + " got=" + hex(got) + " exp=" + hex(exp));
  }
  bool nontriv = false;
  for (uint8_t b : esc) if (b == 0xA9 || b == 0xAA) nontriv = true;
  if (nontriv) st.n["distinct_nontrivial"]++;   // enumerated cases are distinct by construction
  if (!ok) st.n["parse_invalid_cases"]++;
}

static void enumParse(std::vector<uint8_t>& cur, size_t depth, const std::vector<uint8_t>& alpha) {
  checkParse(cur, false);
  if (cur.size() >= depth) return;
  for (uint8_t b : alpha) { cur.push_back(b); enumParse(cur, depth, alpha); cur.pop_back(); }
}

int main(int argc, char** argv) {
  Args a(argc, argv);
  std::string mode = a.str("mode", "all");
  uint64_t seed = (uint64_t)a.num("seed", 1);
  if (mode == "crc" || mode == "all") {
    // all 65536 (crc, symbol) update steps
    for (int c = 0; c < 256; c++) for (int v = 0; v < 256; v++) {
      symbol_t crc = (symbol_t)c;
      SymbolString::updateCrc((symbol_t)v, &crc);
      uint8_t exp = refCrcStep((uint8_t)v, (uint8_t)c);
      st.n["evaluations"]++;
      st.n["crc_steps"]++;
      if (c && v) st.n["distinct_nontrivial"]++;
      if (crc != exp) violation("updateCrc-step", "crc=" + hex1((uint8_t)c) + " sym=" + hex1((uint8_t)v) + " got=" + hex1(crc) + " exp=" + hex1(exp));
    }
    // calcCrc: all strings of length <= 2
    checkCalc({});
    for (int x = 0; x < 256; x++) {
      checkCalc({(uint8_t)x});
      for (int y = 0; y < 256; y++) checkCalc({(uint8_t)x, (uint8_t)y});
    }
    st.sample("samples", "updateCrc(crc=5a,sym=a9) and all other 65535 steps; calcCrc of every string of length<=2, e.g. 'a9aa'");
  }
  if (mode == "addr" || mode == "all") {
    std::set<unsigned> numbers;
    int masters = 0;
    for (int x = 0; x < 256; x++) {
      uint8_t ad = (uint8_t)x;
      auto inset = [](uint8_t n) { return n == 0 || n == 1 || n == 3 || n == 7 || n == 0xF; };
      bool expMaster = inset(ad & 0xF) && inset(ad >> 4);
      st.n["evaluations"] += 7;
      st.n["distinct_nontrivial"]++;
      if (isMaster(ad) != expMaster) violation("isMaster", "addr=" + hex1(ad));
      bool expSlaveMaster = inset((uint8_t)(ad - 5) & 0xF) && inset((uint8_t)(ad - 5) >> 4);
      if (isSlaveMaster(ad) != expSlaveMaster) violation("isSlaveMaster", "addr=" + hex1(ad));
      unsigned expNum = 0;
      for (int i = 0; i < 25; i++) if (SPEC_MASTERS[i] == ad) expNum = (unsigned)i + 1;
      if (getMasterNumber(ad) != expNum) violation("getMasterNumber", "addr=" + hex1(ad) + " got=" + std::to_string(getMasterNumber(ad)) + " exp=" + std::to_string(expNum));
      if (expMaster) {
        masters++;
        numbers.insert(getMasterNumber(ad));
        if (getSlaveAddress(ad) != (uint8_t)(ad + 5)) violation("getSlaveAddress-master", "addr=" + hex1(ad) + " got=" + hex1(getSlaveAddress(ad)));
        if (getMasterAddress(ad) != ad) violation("getMasterAddress-master", "addr=" + hex1(ad));
        if (getMasterAddress((uint8_t)(ad + 5)) != ad) violation("getMasterAddress-slave", "addr=" + hex1((uint8_t)(ad + 5)));
        if (getSlaveAddress((uint8_t)(ad + 5)) != (uint8_t)(ad + 5)) violation("getSlaveAddress-slave", "addr=" + hex1((uint8_t)(ad + 5)));
      } else {
        if (!expSlaveMaster && getMasterAddress(ad) != SYN) violation("getMasterAddress-none", "addr=" + hex1(ad) + " got=" + hex1(getMasterAddress(ad)));
        symbol_t sl = getSlaveAddress(ad);
        if (sl != ad && sl != SYN) violation("getSlaveAddress-invents", "addr=" + hex1(ad) + " got=" + hex1(sl));
        if ((ad == SYN || ad == ESC) && sl != SYN) violation("getSlaveAddress-synesc", "addr=" + hex1(ad) + " got=" + hex1(sl));
      }
      bool expValid = ad != 0xAA && ad != 0xA9;
      if (isValidAddress(ad, true) != expValid) violation("isValidAddress-bc", "addr=" + hex1(ad));
      if (isValidAddress(ad) != expValid) violation("isValidAddress-default", "addr=" + hex1(ad));
      if (isValidAddress(ad, false) != (expValid && ad != 0xFE)) violation("isValidAddress-nobc", "addr=" + hex1(ad));
    }
    if (masters != 25) violation("master-count", "count=" + std::to_string(masters));
    if (numbers.size() != 25 || *numbers.begin() != 1 || *numbers.rbegin() != 25) violation("master-number-bijection", "distinct=" + std::to_string(numbers.size()));
    st.n["addresses"] += 256;
    st.sample("samples", "all 256 addresses, e.g. 0x31 -> master, number 8, slave 0x36");
  }
  if (mode == "parse" || mode == "all") {
    size_t depth = (size_t)a.num("depth", 2);
    int shard = (int)a.num("shard", 0), shards = (int)a.num("shards", 1);
    std::vector<uint8_t> all;
    for (int x = 0; x < 256; x++) all.push_back((uint8_t)x);
    std::vector<uint8_t> cur;
    if (shard == 0) checkParse(cur, false);
    for (int first = shard; first < 256; first += shards) {   // shard over the first byte
      cur.assign(1, (uint8_t)first);
      enumParse(cur, depth, all);
    }
    if (shard == 0) {
      std::vector<uint8_t> small = {0x00, 0x01, 0x02, 0xA8, 0xA9, 0xAA, 0xAB};
      cur.clear();
      for (uint8_t b : small) { cur.assign(1, b); enumParse(cur, (size_t)a.num("depth7", 6), small); }
    }
    st.sample("samples", "parseHexEscaped('a901aa') -> must be rejected; 'a900a901' -> a9 aa");
  }
  if (mode == "random" || mode == "all") {
    Rng rng(seed);
    long long n = a.num("n", 20000);
    static const uint8_t bias[] = {0xA9, 0xAA, 0x00, 0x01, 0xFF, 0xA8, 0xAB};
    for (long long i = 0; i < n; i++) {
      size_t len = rng.chance(1, 10) ? (size_t)rng.range(200, 260) : (size_t)rng.range(0, 40);
      std::vector<uint8_t> v;
      for (size_t k = 0; k < len; k++) v.push_back(rng.chance(1, 3) ? bias[rng.below(7)] : rng.byte());
      checkCalc(v);
      // round trip: parse(hex(escape(v))) == v, also upper case hex
      checkParse(refEscape(v), rng.chance(1, 2));
      // raw random (mostly invalid) escaped strings
      checkParse(v, false);
      // plain hex parse inverts hex formatting
      MasterSymbolString m;
      result_t r = m.parseHex(hex(v));
      st.n["evaluations"]++;
      if (r != RESULT_OK || dataOf(m) != v) violation("parseHex-roundtrip", "hex=" + hex(v));
      if (i < 2) st.sample("samples", "random string " + hex(v).substr(0, 60));
    }
  }
  st.emit();
  return g_violations ? 1 : 0;
}
