// C04 monitor: every bus request completes exactly once under faults and interleavings.
// Threaded execution of the real stack: DirectProtocolHandler::start() (bus thread on the virtual bus) + client threads
// using addRequest(wait=true), sendAndWait, fire-and-forget (deleteOnFinish) and restarting requests.
//  mode=D : deterministic: submissions are released by the bus thread at scripted virtual times (rendezvous), one injected
//           I/O fault per run at every I/O call index of the scenario in turn (read error, read 0, write error, short write,
//           poll hang-up), plus device-invalid (reopen after virtual 5 s) and signal-loss windows
//  mode=S : stress: free running client threads, random yields, periodic faults (run under ASan+UBSan and under TSan)
#include "bus_sim.h"
#include <atomic>
#include <thread>
#include <sched.h>

using namespace bsim;
using namespace vf;

static Stats st;
static bool g_verbose = false;
static bool g_leaked = false;    // a stalled run leaves threads and the handler behind on purpose

enum Kind { K_WAITED = 0, K_SENDWAIT = 1, K_FIRE = 2, K_RESTART = 3 };
static const char* KN[] = {"waited", "sendAndWait", "fire-and-forget", "restarting"};

struct Shadow {
  int id = 0; Kind kind = K_WAITED;
  std::vector<uint8_t> master;
  std::atomic<int> notifies{0}, destroyed{0};
  std::atomic<int> lastResult{RESULT_EMPTY};
  std::vector<uint8_t> lastSlave;
  int restartsWanted = 0;
  std::atomic<int> restartsGiven{0};
  std::atomic<bool> released{false}, returned{false};
  int waiterResult = RESULT_EMPTY;
  int notifiesAtReturn = -1;
  std::vector<uint8_t> waiterSlave;
  std::atomic<int64_t> submitT{0}, doneT{0};
  std::atomic<int> notifyAfterDestroy{0};
  std::atomic<int> finals{0}, notifyAfterFinal{0};
  std::mutex m;
  BusRequest* obj = nullptr;
};

struct TrackedReq : public BusRequest {
  Shadow* sh; MasterSymbolString own;
  TrackedReq(Shadow* s, const MasterSymbolString& m, bool del) : BusRequest(own, del), sh(s), own(m) {}
  ~TrackedReq() override { sh->destroyed++; }
  bool notify(result_t r, const SlaveSymbolString& s) override {
    if (sh->destroyed > 0) sh->notifyAfterDestroy++;
    { std::lock_guard<std::mutex> l(sh->m); sh->lastSlave = bytesOf(s); }
    sh->lastResult = r;
    sh->doneT = g.now;
    if (sh->finals > 0) sh->notifyAfterFinal++;
    // like ScanRequest: go on with the next step unless the signal is gone
    bool restart = sh->restartsGiven < sh->restartsWanted && r != RESULT_ERR_NO_SIGNAL;
    if (restart) sh->restartsGiven++; else sh->finals++;
    sh->notifies++;
    return restart;
  }
};

struct Config { uint8_t own = 0x31; bool enhanced = false; unsigned busLostRetries = 2, failedSendRetries = 1, lockCount = 0; };

static int64_t vnow() { std::lock_guard<std::recursive_mutex> l(g.mtx); return g.now; }

struct Scenario {
  Config cfg;
  int nclients = 2;
  std::vector<std::unique_ptr<Shadow>> reqs;
  std::vector<std::vector<int>> perClient;
  std::vector<int64_t> submitAt;
  std::vector<Item> items;
  std::vector<PeerScript> peers;
  // faults
  long failPpollAt = -1, failReadAt = -1, zeroReadAt = -1, failWriteAt = -1, shortWriteAt = -1, echoCorruptAt = -1;
  int64_t invalidFrom = -1, invalidFor = 0;       // device invalid window (virtual offsets)
  int64_t silenceFrom = -1, silenceFor = 0;       // no SYN / no traffic window
  std::string desc;
};

struct RunResult { long ppolls = 0, reads = 0, writes = 0, faults = 0, clientWaits = 0, hostBytes = 0; bool quiescent = false; int64_t endT = 0; std::string sig; };

static std::vector<uint8_t> masterFor(int id, uint8_t own, Rng& r) {
  // PB/SB carry the request id so that the response of the peer identifies the request
  std::vector<uint8_t> m = {own, (uint8_t)r.pick(std::vector<uint8_t>{0x08, 0x15, 0x25, 0x52, 0x75}), (uint8_t)(0x40 + (id >> 4)), (uint8_t)(0x10 + (id & 15))};
  size_t nn = (size_t)r.range(1, 5);
  m.push_back((uint8_t)nn);
  m.push_back((uint8_t)(id * 7 + 1));
  for (size_t i = 1; i < nn; i++) m.push_back(r.byte());
  return m;
}

static bool runScenario(Scenario& sc, Rng& r, bool stress, const std::string& tag, RunResult* rr) {
  g.reset();
  g.now = 1700000000LL * 1000000000LL + (int64_t)r.below(1000) * MS;
  int64_t t0 = g.now;
  Bus bus;
  bus.enhanced = sc.cfg.enhanced;
  bus.rng = &r;
  bus.derivedResponses = true;
  bus.echoCorruptAt = sc.echoCorruptAt;
  bus.attach();
  bus.autoSyn = true;
  bus.gluePct = r.pick(std::vector<int>{0, 0, 30, 100});      // a SYN may arrive together with the symbols that follow it
  bus.echoGluePct = r.pick(std::vector<int>{0, 0, 50});
  if (bus.enhanced) bus.strayBeforeStartedPct = r.pick(std::vector<int>{0, 0, 25, 60});
  else { bus.strayAfterArbPct = r.pick(std::vector<int>{0, 0, 0, 30}); bus.dropArbWriteAt = r.chance(1, 5) ? (long)r.range(0, 3) : -1; }
  Item s; s.kind = Item::SYN;
  for (int i = 0; i < 4; i++) bus.script.push_back(s);
  for (auto& it : sc.items) bus.script.push_back(it);
  for (auto& p : sc.peers) bus.peers.push_back(p);
  if (sc.failPpollAt >= 0) g.failPpoll.insert(sc.failPpollAt);
  if (sc.failReadAt >= 0) g.failRead.insert(sc.failReadAt);
  if (sc.zeroReadAt >= 0) g.zeroRead.insert(sc.zeroReadAt);
  if (sc.failWriteAt >= 0) g.failWrite.insert(sc.failWriteAt);
  if (sc.shortWriteAt >= 0) g.shortWrite.insert(sc.shortWriteAt);
  RecListener lis;
  ebus_protocol_config_t pc;
  memset(&pc, 0, sizeof(pc));
  pc.device = "sim"; pc.noDeviceCheck = false; pc.readOnly = false; pc.ownAddress = sc.cfg.own; pc.answer = false;
  pc.busLostRetries = sc.cfg.busLostRetries; pc.failedSendRetries = sc.cfg.failedSendRetries; pc.busAcquireTimeout = 10; pc.slaveRecvTimeout = 25;
  pc.lockCount = sc.cfg.lockCount; pc.generateSyn = false; pc.initialSend = false;
  auto* tr = new vbus::SimTransport("sim", 0, true);
  Device* dev = sc.cfg.enhanced ? (Device*)new EnhancedDevice(tr) : (Device*)new PlainDevice(tr);
  SimHandler* handler = new SimHandler(pc, dev, &lis);
  g.busWaitCond = handler->waitCond();
  handler->open();
  std::atomic<bool> clientsDone{false};
  std::atomic<int> finishedClients{0};
  std::vector<std::thread> threads;
  const int nreq = (int)sc.reqs.size();
  // the bus thread releases due submissions from inside ppoll and waits until the client is blocked or has returned
  std::function<void(int64_t)> basePump = g.pump;
  std::atomic<int64_t> lastFaultT{t0};
  bool invalidActive = false, silenceActive = false;
  g.pump = [&](int64_t horizon) {
    int64_t off = g.now - t0;
    if (sc.invalidFrom >= 0) {
      bool want = off >= sc.invalidFrom && off < sc.invalidFrom + sc.invalidFor;
      if (want != invalidActive) { invalidActive = want; g.deviceValid = !want; if (!want) lastFaultT = g.now; if (want) g.faultsFired++; }
    }
    bool silent = sc.silenceFrom >= 0 && off >= sc.silenceFrom && off < sc.silenceFrom + sc.silenceFor;
    if (silent != silenceActive) {
      silenceActive = silent;
      // an outage is over for the progress bound once the handler had time to notice it (requests are then completed with "no signal",
      // whether they were queued before or are submitted during the outage): completion must not wait for the signal to come back
      if (silent) { g.faultsFired++; lastFaultT = g.now + std::min<int64_t>(sc.silenceFor, 3000 * MS); }
      else { bus.lastByteTime = g.now; if (sc.silenceFor <= 3000 * MS) lastFaultT = g.now; }
    }
    if (!stress) {
      for (int i = 0; i < nreq; i++) {
        Shadow* sh = sc.reqs[i].get();
        if (!sh->released && off >= sc.submitAt[i]) {
          // only release a client when it is idle (its previous request has returned)
          int cl = -1;
          for (int c = 0; c < sc.nclients; c++) for (int id : sc.perClient[c]) if (id == i) cl = c;
          bool prevDone = true;
          for (int id : sc.perClient[cl]) { if (id == i) break; if (!sc.reqs[id]->returned) prevDone = false; }
          if (!prevDone) continue;
          sh->submitT = g.now;
          g.clientState[cl] = 1;
          sh->released = true;
          // rendezvous: wait (real time) until the client blocks in its wait or has returned
          g.mtx.unlock();
          for (int spin = 0; spin < 200000; spin++) {
            if (sh->returned || g.clientWaiting[cl]) break;
            vbus::realSleepUs(20);
          }
          g.mtx.lock();
        }
      }
    }
    if (!silent) basePump(horizon);
  };
  // clients
  for (int c = 0; c < sc.nclients; c++) {
    threads.emplace_back([&, c]() {
      vbus::t_clientIdx = c;
      Rng cr(r.next() ^ (uint64_t)c);
      for (int id : sc.perClient[c]) {
        Shadow* sh = sc.reqs[id].get();
        if (!stress) { g.clientState[c] = 0; while (!sh->released) vbus::realSleepUs(20); g.clientState[c] = 1; }
        else { if (cr.chance(1, 3)) vbus::realSleepUs(cr.below(300)); else if (cr.chance(1, 2)) sched_yield(); sh->submitT = vnow(); sh->released = true; }
        MasterSymbolString m;
        for (uint8_t b : sh->master) m.push_back(b);
        if (sh->kind == K_SENDWAIT) {
          SlaveSymbolString sl;
          sh->waiterResult = handler->sendAndWait(m, &sl);
          sh->waiterSlave = bytesOf(sl);
          sh->notifies = 1;   // the internal request is not observable; the return value is judged against the wire
          sh->lastResult = sh->waiterResult;
          sh->doneT = vnow();
        } else if (sh->kind == K_WAITED) {
          TrackedReq* rq = new TrackedReq(sh, m, false);
          sh->obj = rq;
          sh->waiterResult = handler->addRequest(rq, true);
          sh->notifiesAtReturn = sh->notifies;
          { std::lock_guard<std::mutex> l(sh->m); sh->waiterSlave = sh->lastSlave; }
          if (sh->waiterResult == RESULT_OK) { delete rq; sh->obj = nullptr; }     // the caller owns it again
        } else if (sh->kind == K_FIRE) {
          TrackedReq* rq = new TrackedReq(sh, m, true);
          result_t ar = handler->addRequest(rq, false);
          if (ar != RESULT_OK) { sh->lastResult = ar; sh->notifies++; sh->finals++; delete rq; }
        } else {
          TrackedReq* rq = new TrackedReq(sh, m, false);
          sh->obj = rq;
          result_t ar = handler->addRequest(rq, false);
          if (ar != RESULT_OK) { sh->lastResult = ar; sh->notifies++; sh->finals++; }
        }
        sh->returned = true;
        g.clientState[c] = 0;
      }
      g.clientState[c] = 0;
      finishedClients++;
    });
  }
  // every idle poll costs a little real time, otherwise virtual time would race ahead of the wake-up latency of the clients
  if (stress) { g.idleRealSleepUs = 30; g.realUsPerVirtualMs = 0.5; } else { g.holdTimeWhileClientsRun = true; g.realUsPerVirtualMs = 2.0; }   // 1 virtual second costs 2 ms real time
  handler->start("bus");
  // wait for quiescence: every request final; virtual-time bound judged afterwards; real-time watchdog = inconclusive
  auto allFinal = [&]() {
    for (auto& sh : sc.reqs) {
      if (!sh->returned) return false;
      if (sh->kind == K_SENDWAIT) continue;
      if (sh->finals < 1) return false;
      if (sh->kind == K_FIRE && sh->destroyed < 1) return false;
    }
    return true;
  };
  bool quiescent = false;
  for (int w = 0; w < 60000; w++) {   // 60000 x 0.5 ms = 30 s real time
    if (allFinal()) { quiescent = true; break; }
    // far beyond any progress bound in virtual time: the verdict (lost request) does not change by waiting longer in real time
    if (vnow() - lastFaultT.load() > 3600LL * 1000 * MS && w > 2000) break;
    vbus::realSleepUs(500);
  }
  int64_t endT = vnow();
  // let the bus run a little longer (late double notifications would show up), then stop
  if (quiescent) { int64_t until = vnow() + 300 * MS; for (int w = 0; w < 2000 && vnow() < until; w++) vbus::realSleepUs(200); }
  if (!quiescent) {
    // release everything so that the threads can be joined: stopping the handler ends the blocking waits
  }
  handler->stop();
  handler->join();
  for (auto& sh : sc.reqs) sh->released = true;
  // threads still blocked in addRequest(wait) after a lost request would hang forever: detach in that case
  if (quiescent) { for (auto& t : threads) t.join(); } else { for (auto& t : threads) t.detach(); }
  rr->ppolls = g.ppollCalls; rr->reads = g.readCalls; rr->writes = g.writeCalls; rr->faults = g.faultsFired; rr->clientWaits = g.clientWaits;
  rr->quiescent = quiescent; rr->endT = endT; rr->hostBytes = bus.hostBytes;
  if (sc.echoCorruptAt >= 0 && bus.hostBytes > sc.echoCorruptAt) { g.faultsFired++; rr->faults++; }
  st.n["bus_bytes"] += (long long)bus.log.size();
  st.n["io_calls"] += g.ppollCalls + g.readCalls + g.writeCalls;
  st.n["faults_fired"] += g.faultsFired;
  bool bad = false;
  auto report = [&](const std::string& key, const std::string& detail) { violation(key, tag + " " + sc.desc + ": " + detail); bad = true; };
  if (!quiescent) {
    std::string pend;
    for (auto& sh : sc.reqs) if (!sh->returned || (sh->kind != K_SENDWAIT && sh->finals < 1))
      pend += "#" + std::to_string(sh->id) + "(" + KN[sh->kind] + " notifies=" + std::to_string(sh->notifies.load()) + " restarts=" + std::to_string(sh->restartsGiven.load()) + "/" + std::to_string(sh->restartsWanted) + " last=" + std::to_string(sh->lastResult.load()) + " returned=" + std::to_string(sh->returned.load()) + ") ";
    g_leaked = true;
    // distinguish "virtual time passed far beyond the bound" (lost request) from a harness stall
    if (g.now - lastFaultT > 60LL * 1000 * MS) report("c04-request-lost", "not completed " + std::to_string((g.now - lastFaultT) / MS) + " virtual ms after the last fault: " + pend);
    else { printf("I\tstall %s %s\n", tag.c_str(), pend.c_str()); st.n["inconclusive_stalls"]++; }
    // leak the handler deliberately (threads may still reference it)
    return !bad;
  }
  // ---- oracle at quiescence ------------------------------------------------------------------------------------
  // reference: which requests have a complete valid exchange on the wire
  std::vector<RefTelegram> ref;
  RefParser::parse(bus.log, &ref);
  for (auto& shp : sc.reqs) {
    Shadow* sh = shp.get();
    std::string who = "#" + std::to_string(sh->id) + " " + KN[sh->kind] + " " + hex(sh->master);
    if (sh->kind != K_SENDWAIT) {
      if (sh->finals != 1 || sh->notifyAfterFinal > 0 || sh->notifies != sh->restartsGiven + 1)
        report(sh->finals > 1 || sh->notifyAfterFinal > 0 ? "c04-completed-twice" : "c04-not-completed", who + " notified " + std::to_string(sh->notifies.load()) + " times with " +
               std::to_string(sh->restartsGiven.load()) + " restarts requested, final completions " + std::to_string(sh->finals.load()) + ", notifications after the final one " + std::to_string(sh->notifyAfterFinal.load()));
      if (sh->notifyAfterDestroy > 0) report("c04-touched-after-destruction", who);
    }
    if (sh->kind == K_FIRE && sh->destroyed != 1) report("c04-self-deleting-request-destroyed-" + std::to_string(sh->destroyed.load()) + "-times", who);
    if (sh->kind == K_WAITED) {
      if (sh->waiterResult == RESULT_OK && sh->notifiesAtReturn != 1) report("c04-waiter-released-before-completion", who + " notifies at return " + std::to_string(sh->notifiesAtReturn));
      if (sh->waiterResult != RESULT_OK) report("c04-waiter-not-released-properly", who + " addRequest(wait) returned " + std::to_string(sh->waiterResult));
    }
    if (sh->kind == K_RESTART && sh->obj) {
      // completed non-deleting request nobody waited for: it must be in the finished queue exactly once
      bool got = handler->takeFinished(sh->obj);
      if (!got && sh->lastResult != RESULT_ERR_DEVICE) report("c04-finished-request-not-handed-back", who);
      if (got && handler->takeFinished(sh->obj)) report("c04-finished-request-queued-twice", who);
      delete sh->obj; sh->obj = nullptr;
    }
    // own result: a successful completion carries the response to its own master part
    int res = sh->kind == K_SENDWAIT || sh->kind == K_WAITED ? (sh->kind == K_WAITED ? sh->lastResult.load() : sh->waiterResult) : sh->lastResult.load();
    std::vector<uint8_t> sl = sh->kind == K_SENDWAIT || sh->kind == K_WAITED ? sh->waiterSlave : sh->lastSlave;
    if (res == RESULT_OK) {
      std::vector<uint8_t> exp = {3, sh->master[2], sh->master[3], sh->master[5]};
      if (sl != exp) report("c04-result-of-another-request", who + " got slave " + hex(sl) + " expected " + hex(exp));
      bool onWire = false;
      for (auto& t : ref) if (t.master == sh->master) onWire = true;
      if (!onWire) report("c04-success-without-exchange", who);
    }
    st.hist["results"][std::to_string(res)]++;
    st.hist["kinds"][KN[sh->kind]]++;
  }
  // progress bound in virtual time after the last fault
  int64_t bound = ((int64_t)(nreq + 1) * (sc.cfg.failedSendRetries + 1) * (sc.cfg.busLostRetries + 1) * 200 + 10000) * MS;
  int64_t lastDone = 0, lastSubmit = 0;
  for (auto& sh : sc.reqs) { lastDone = std::max(lastDone, sh->doneT.load()); lastSubmit = std::max(lastSubmit, sh->submitT.load()); }
  int64_t base = std::max(lastFaultT.load(), lastSubmit);
  if (lastDone - base > bound) report("c04-completion-too-late", std::to_string((lastDone - base) / MS) + " virtual ms after the last fault/submission (bound " + std::to_string(bound / MS) + ")");
  delete handler;    // destructor frees what is still queued; ASan/LSan watch
  for (auto& sh : sc.reqs) if (sh->obj && sh->kind == K_WAITED) { sh->obj = nullptr; }
  if (g_verbose) {
    for (auto& sh : sc.reqs) printf("REQ #%d %s submit=%lld done=%lld result=%d notifies=%d restarts=%d/%d\n", sh->id, KN[sh->kind], (long long)((sh->submitT - t0) / MS), (long long)((sh->doneT - t0) / MS),
                                     (int)sh->lastResult, (int)sh->notifies, (int)sh->restartsGiven, sh->restartsWanted);
    printf("END t=%lld lastFault=%lld ppolls=%ld\n", (long long)((endT - t0) / MS), (long long)((lastFaultT - t0) / MS), g.ppollCalls);
    std::string b; size_t k = 0; for (auto& e : bus.log) { if (k++ > 1500) break; if (e.gapBefore) b += "~"; b += hex1(e.b); if (e.origin == 'H') b += "'"; if (e.origin == 'X') b += "*"; } printf("BUS %s\n", b.c_str());
  }
  return !bad;
}

static void buildScenario(Scenario& sc, Rng& r, bool stress) {
  sc.cfg.own = MASTERS[r.below(25)];
  sc.cfg.enhanced = r.chance(1, 3);
  sc.cfg.busLostRetries = r.pick(std::vector<unsigned>{0, 1, 2});
  sc.cfg.failedSendRetries = r.pick(std::vector<unsigned>{0, 1, 2});
  sc.nclients = stress ? r.range(2, 8) : r.range(1, 3);
  int nreq = stress ? r.range(20, 60) : r.range(2, 6);
  sc.perClient.assign((size_t)sc.nclients, {});
  int64_t at = (int64_t)r.range(150, 300) * MS;
  for (int i = 0; i < nreq; i++) {
    std::unique_ptr<Shadow> sh(new Shadow());
    sh->id = i;
    sh->kind = (Kind)r.pick(std::vector<int>{0, 0, 1, 2, 2, 3});
    sh->master = masterFor(i, sc.cfg.own, r);
    if (sh->kind == K_RESTART) sh->restartsWanted = r.range(1, 3);
    sc.perClient[r.below((uint32_t)sc.nclients)].push_back(i);
    sc.submitAt.push_back(at);
    at += r.chance(1, 2) ? 0 : (int64_t)r.range(1, 400) * MS;
    sc.reqs.push_back(std::move(sh));
  }
  // hostile neighbours: masters that win arbitration, NAKs
  Item s; s.kind = Item::SYN;
  int nf = r.range(0, 6);
  for (int k = 0; k < nf; k++) {
    s.gap = (int64_t)r.range(5, 44) * MS;
    sc.items.push_back(s);
    Telegram t; t.qq = MASTERS[r.below(25)]; if (t.qq == sc.cfg.own) t.qq = (uint8_t)(sc.cfg.own == 0x00 ? 0x10 : 0x00);
    t.zz = 0x08; t.pb = 0xb5; t.sb = 0x09; t.data = {r.byte(), r.byte()}; t.sdata = {r.byte()};
    Item it; it.kind = Item::TELEGRAM; it.arbitrates = true;
    wireOf(t, false, false, false, false, &it.bytes, &it.origins);
    sc.items.push_back(it);
  }
  for (int i = 0; i < nreq * 6; i++) {
    PeerScript p;
    if (r.chance(1, 6)) p.cmdAck[0] = r.range(1, 4);
    if (r.chance(1, 8)) p.respCrcXor[0] = 0x21;
    sc.peers.push_back(p);
  }
  sc.desc = "own=" + hex1(sc.cfg.own) + " enh=" + std::to_string(sc.cfg.enhanced) + " clients=" + std::to_string(sc.nclients) + " requests=" + std::to_string(nreq) +
            " lostretries=" + std::to_string(sc.cfg.busLostRetries) + " sendretries=" + std::to_string(sc.cfg.failedSendRetries);
}

int main(int argc, char** argv) {
  Args a(argc, argv);
  installDeathCallback();
  setFacilitiesLogLevel(-1, ll_none);
  std::string mode = a.str("mode", "D");
  uint64_t seed = (uint64_t)a.num("seed", 1);
  long n = a.num("n", 5);
  long only = a.num("only", -1);
  g_verbose = a.num("verbose", 0) != 0;
  long maxFaults = a.num("maxfaults", 100000);
  for (long ci = 0; ci < n; ci++) {
    if (only >= 0 && ci != only) continue;
    if (mode == "S") {
      Rng r(seed * 1000003ULL + (uint64_t)ci + 4000);
      Scenario sc;
      buildScenario(sc, r, true);
      // periodic faults in the stress runs
      if (r.chance(1, 3)) { sc.invalidFrom = (int64_t)r.range(200, 2000) * MS; sc.invalidFor = (int64_t)r.range(100, 3000) * MS; }
      if (r.chance(1, 3)) { sc.silenceFrom = (int64_t)r.range(200, 3000) * MS; sc.silenceFor = (int64_t)r.range(1200, 4000) * MS; }
      if (r.chance(1, 3)) sc.failReadAt = r.range(10, 400);
      if (r.chance(1, 3)) sc.failWriteAt = r.range(0, 60);
      current("stress case " + std::to_string(ci));
      RunResult rr;
      st.n["evaluations"]++;
      runScenario(sc, r, true, "S case=" + std::to_string(ci), &rr);
      st.n["distinct_nontrivial"] += rr.faults > 0 || rr.clientWaits > 0 ? 1 : 0;
      st.n["client_wait_episodes"] += rr.clientWaits;
      continue;
    }
    // mode D: baseline run to count the I/O calls, then one fault at every index
    uint64_t cseed = seed * 1000003ULL + (uint64_t)ci + 400;
    RunResult base;
    {
      Rng r(cseed);
      Scenario sc;
      buildScenario(sc, r, false);
      current("D baseline case " + std::to_string(ci));
      st.n["evaluations"]++;
      if (!runScenario(sc, r, false, "D case=" + std::to_string(ci) + " no-fault", &base)) continue;
      if (ci < 2) st.sample("samples", sc.desc + " baseline: " + std::to_string(base.ppolls) + " ppoll, " + std::to_string(base.reads) + " read, " + std::to_string(base.writes) + " write calls");
    }
    struct F { int kind; long idx; };
    std::vector<F> faults;
    for (long k = 0; k < base.ppolls; k++) faults.push_back({0, k});
    for (long k = 0; k < base.reads; k++) { faults.push_back({1, k}); faults.push_back({2, k}); }
    for (long k = 0; k < base.writes; k++) { faults.push_back({3, k}); faults.push_back({4, k}); }
    for (int k = 0; k < 12; k++) { faults.push_back({5, k}); faults.push_back({6, k}); faults.push_back({8, k}); }
    for (long k = 0; k < base.hostBytes; k++) faults.push_back({7, k});
    // shard/limit: deterministic subsample when more than maxFaults
    size_t stride = faults.size() > (size_t)maxFaults ? (faults.size() + (size_t)maxFaults - 1) / (size_t)maxFaults : 1;
    for (size_t fi = (size_t)(seed % stride); fi < faults.size(); fi += stride) {
      Rng r(cseed);
      Scenario sc;
      buildScenario(sc, r, false);
      F f = faults[fi];
      if (a.num("fault", -1) >= 0 && (long)fi != a.num("fault", -1)) continue;
      if (a.num("onlykind", -1) >= 0 && f.kind != a.num("onlykind", -1)) continue;
      std::string fd;
      if (f.kind == 0) { sc.failPpollAt = f.idx; fd = "ppoll-hup@" + std::to_string(f.idx); }
      else if (f.kind == 1) { sc.failReadAt = f.idx; fd = "read-error@" + std::to_string(f.idx); }
      else if (f.kind == 2) { sc.zeroReadAt = f.idx; fd = "read-zero@" + std::to_string(f.idx); }
      else if (f.kind == 3) { sc.failWriteAt = f.idx; fd = "write-error@" + std::to_string(f.idx); }
      else if (f.kind == 4) { sc.shortWriteAt = f.idx; fd = "short-write@" + std::to_string(f.idx); }
      else if (f.kind == 7) { sc.echoCorruptAt = f.idx; fd = "echo-corrupt@" + std::to_string(f.idx); }
      else if (f.kind == 5) { sc.invalidFrom = (int64_t)(100 + f.idx * 60) * MS; sc.invalidFor = (int64_t)(50 + 700 * (f.idx % 3)) * MS; fd = "device-invalid@" + std::to_string(sc.invalidFrom / MS) + "ms"; }
      else if (f.kind == 8) {
        // requests are submitted while the signal is already known to be lost (handler in its no-signal state)
        // (the signal does not come back within the scenario: completion must not depend on that)
        sc.silenceFrom = 100 * MS; sc.silenceFor = 3600LL * 1000 * MS;
        for (auto& t : sc.submitAt) t += (int64_t)(3500 + f.idx * 170) * MS;
        fd = "submit-during-outage@" + std::to_string(3500 + f.idx * 170) + "ms";
      }
      else { sc.silenceFrom = (int64_t)(100 + f.idx * 70) * MS; sc.silenceFor = (int64_t)(1100 + 900 * (f.idx % 3)) * MS; fd = "signal-loss@" + std::to_string(sc.silenceFrom / MS) + "ms"; }
      st.hist["fault_kinds"][fd.substr(0, fd.find('@'))]++;
      current("D case " + std::to_string(ci) + " fault " + fd + " fi=" + std::to_string(fi));
      if (g_verbose) printf("FAULT fi=%zu %s\n", fi, fd.c_str());
      RunResult rr;
      st.n["evaluations"]++;
      runScenario(sc, r, false, "D case=" + std::to_string(ci) + " fault=" + fd, &rr);
      if (rr.faults > 0) st.n["distinct_nontrivial"]++;
    }
  }
  st.emit();
  if (g_leaked) { fflush(stdout); _exit(g_violations ? 1 : 0); }   // skip the leak check: objects were abandoned deliberately
  return g_violations ? 1 : 0;
}
