// Daemon-level driver (C16 access levels; C18 request parsing / HTTP root confinement / MQTT topics).
//   daemon_driver mode=c16 seed=S n=N [only=K verbose=1] [exh=1 from=A to=B] [mqtttopic=T]
#include "daemon_sim.h"
#include <dirent.h>
#include <limits.h>
#include <algorithm>

namespace ebusd {
MqttClient* MqttClient::create(mqtt_client_config_t config, MqttClientListener* listener) {
  auto c = new dsim::FakeMqttClient(config, listener);
  dsim::g_lastMqttClient = c;
  return c;
}
}  // namespace ebusd

namespace dsim { FakeMqttClient* g_lastMqttClient = nullptr; }

// MqttHandler's constructor strdup()s the last-will topic into the process-wide option block: one allocation per daemon
// process in production, one per world here
extern "C" const char* __lsan_default_suppressions() { return "leak:ebusd::MqttHandler::MqttHandler\n"; }

using namespace dsim;  // NOLINT
using vf::Rng; using vf::violation; using vf::jstr;
static vf::Stats st;
static bool g_verbose = false;
static uint64_t g_seed = 1;

// ---------------------------------------------------------------------------------------------------------------------
// reference: token-exact membership
static std::vector<std::string> splitLevels(const std::string& s) {
  std::vector<std::string> v; std::string cur;
  for (char c : s) { if (c == ';') { v.push_back(cur); cur.clear(); } else cur += c; }
  v.push_back(cur);
  return v;
}
static bool refAccess(const std::string& msgLevel, const std::string& granted) {
  if (msgLevel.empty()) return true;
  for (auto& t : splitLevels(granted)) if (t == "*" || t == msgLevel) return true;
  return false;
}

// level names: all strings over {a,b} of length 1..3
static std::vector<std::string> levelPool() {
  std::vector<std::string> v;
  for (int len = 1; len <= 3; len++) for (int x = 0; x < (1 << len); x++) {
    std::string s; for (int i = 0; i < len; i++) s += ((x >> i) & 1) ? 'b' : 'a';
    v.push_back(s);
  }
  return v;
}
static const std::vector<std::string> POOL = levelPool();                       // 14 names
static std::vector<std::string> grantPool() { auto v = POOL; v.push_back("*"); return v; }
static const std::vector<std::string> GRANT = grantPool();                      // 15 tokens
// all level lists of 0..3 tokens: index -> list
static size_t grantListCount() { return 1 + 15 + 15 * 15 + 15 * 15 * 15; }
static std::vector<std::string> grantList(size_t idx) {
  std::vector<std::string> v;
  if (idx == 0) return v;
  idx -= 1;
  if (idx < 15) { v.push_back(GRANT[idx]); return v; }
  idx -= 15;
  if (idx < 225) { v.push_back(GRANT[idx / 15]); v.push_back(GRANT[idx % 15]); return v; }
  idx -= 225;
  v.push_back(GRANT[idx / 225]); v.push_back(GRANT[(idx / 15) % 15]); v.push_back(GRANT[idx % 15]);
  return v;
}
static std::string join(const std::vector<std::string>& v, const char* sep) {
  std::string s; for (size_t i = 0; i < v.size(); i++) { if (i) s += sep; s += v[i]; } return s;
}

struct MsgDef {
  int k;                       // unique number: ID byte and answer value derive from it
  std::string circuit, name, level;
  char dir;                    // 'r' active read, 'w' active write, 'u' passive read
  bool legacy;                 // level written as circuit#level
  uint8_t zz;
  Message* msg = nullptr;
  std::string cond;            // name of the condition the definition is subject to ("old": hw < 2, "new": hw >= 2)
  bool isHw = false;           // the message the conditions refer to
};
struct UserDef { std::string name, secret; std::vector<std::string> levels; bool oneCell; };

struct C16World {
  std::vector<MsgDef> msgs;
  std::vector<UserDef> users;
  int defaultKind = 0;         // 0 none, 1 --accesslevel, 2 '*' line in the ACL file, 3 both (the file wins)
  std::vector<std::string> defOpt, defAcl;
  std::string csv() const {
    std::string s = "type,circuit,level,name,comment,qq,zz,pbsb,id,*name,part,type,divisor/values,unit,comment\n";
    char b[256];
    bool conds = false;
    for (auto& m : msgs) {
      std::string circ = m.circuit + (m.legacy && !m.level.empty() ? "#" + m.level : "");
      if (!m.cond.empty() && !conds) { conds = true; s += "*[old],c1,,hw,,v,,<2\n*[new],c1,,hw,,v,,>=2\n"; }
      snprintf(b, sizeof(b), "%s%s,%s,%s,%s,,%s,%02x,b509,%02x%02x,v,,UCH,,,\n", m.cond.empty() ? "" : ("[" + m.cond + "]").c_str(), m.dir == 'u' ? "u" : m.dir == 'w' ? "w" : "r",
               circ.c_str(), m.legacy ? "" : m.level.c_str(), m.name.c_str(), m.dir == 'u' ? "10" : "", m.zz,
               m.dir == 'w' ? 0x0e : 0x0d, m.k);
      s += b;
    }
    return s;
  }
  std::string acl() const {
    std::string s = "name,secret,level\n";
    if (defaultKind >= 2) s += "*,," + join(defAcl, ";") + "\n";
    for (auto& u : users) s += u.name + "," + u.secret + "," + join(u.levels, u.oneCell ? ";" : ",") + "\n";
    return s;
  }
  std::string defaultGranted() const { return defaultKind >= 2 ? join(defAcl, ";") : defaultKind == 1 ? join(defOpt, ";") : ""; }
  const UserDef* user(const std::string& n) const { for (auto& u : users) if (u.name == n) return &u; return nullptr; }
  std::string granted(const std::string& authUser) const {
    const UserDef* u = authUser.empty() ? nullptr : user(authUser);
    return u ? join(u->levels, ";") : defaultGranted();
  }
  std::string str() const {
    std::string s = "default[" + std::to_string(defaultKind) + "]=" + defaultGranted() + " users:";
    for (auto& u : users) s += " " + u.name + "/" + u.secret + "=" + join(u.levels, ";");
    s += " msgs:";
    for (auto& m : msgs) s += " " + (m.cond.empty() ? "" : "[" + m.cond + "]") + std::string(1, m.dir) + ":" + m.circuit + "/" + m.name + "#" + m.level + (m.legacy ? "(legacy)" : "");
    return s;
  }
};

static std::vector<std::string> randGrant(Rng& r) {
  int k = r.range(0, 9);
  if (k == 0) return {};
  if (k == 1) return {"*"};
  return grantList(r.below((uint32_t)grantListCount()));
}

/** build a world; when pairLevel/pairGrant are given, they are planted (exhaustive mode) */
static C16World buildWorld(Rng& r, const std::vector<std::pair<std::string, std::vector<std::string>>>* planted) {
  C16World w;
  static const char* names[] = {"u1", "u2", "mqtt", "u3"};
  int nu = r.range(0, 4);
  for (int i = 0; i < nu; i++) {
    UserDef u; u.name = names[i]; u.secret = r.chance(1, 5) ? "" : std::string("s") + std::to_string(r.range(1, 3));
    u.levels = randGrant(r); u.oneCell = r.chance(1, 2);
    w.users.push_back(u);
  }
  w.defaultKind = r.range(0, 3);
  w.defOpt = randGrant(r); w.defAcl = randGrant(r);
  if (w.defaultKind == 1 && join(w.defOpt, ";").empty()) w.defaultKind = 0;
  int nm = r.range(5, 10);
  int k = 1;
  for (int i = 0; i < nm; i++) {
    MsgDef m; m.k = k++;
    m.circuit = r.chance(1, 2) ? "c1" : "c2"; m.name = "m" + std::to_string(m.k);
    m.level = r.chance(1, 4) ? "" : r.pick(POOL);
    int d = r.range(0, 9); m.dir = d < 6 ? 'r' : d < 8 ? 'w' : 'u';
    m.legacy = r.chance(1, 5); m.zz = r.chance(1, 6) ? 0x15 : 0x08;
    w.msgs.push_back(m);
  }
  // a name used in both circuits, and a read/write pair with different levels under one name
  { MsgDef a; a.k = k++; a.circuit = "c1"; a.name = "dup"; a.level = r.chance(1, 4) ? "" : r.pick(POOL); a.dir = 'r'; a.legacy = false; a.zz = 0x08; w.msgs.push_back(a);
    MsgDef b = a; b.k = k++; b.circuit = "c2"; b.level = r.chance(1, 4) ? "" : r.pick(POOL); w.msgs.push_back(b); }
  { MsgDef a; a.k = k++; a.circuit = "c1"; a.name = "rw"; a.level = r.chance(1, 4) ? "" : r.pick(POOL); a.dir = 'r'; a.legacy = false; a.zz = 0x08; w.msgs.push_back(a);
    MsgDef b = a; b.k = k++; b.dir = 'w'; b.level = r.chance(1, 4) ? "" : r.pick(POOL); w.msgs.push_back(b); }
  if (r.chance(2, 3)) {
    // conditional variants of one name with different levels: which one a name stands for depends on the last value of c1/hw
    MsgDef h; h.k = k++; h.circuit = "c1"; h.name = "hw"; h.level = ""; h.dir = 'r'; h.legacy = false; h.zz = 0x08; h.isHw = true; w.msgs.push_back(h);
    MsgDef a; a.k = k++; a.circuit = "c1"; a.name = "cv"; a.level = r.chance(1, 3) ? "" : r.pick(POOL); a.dir = 'r'; a.legacy = false; a.zz = 0x08; a.cond = "old";
    MsgDef b = a; b.k = k++; b.cond = "new"; b.level = r.chance(1, 3) ? "" : r.pick(POOL);
    if (r.chance(1, 2)) std::swap(a, b);
    w.msgs.push_back(a); w.msgs.push_back(b);
    if (r.chance(1, 2)) {      // and a conditional write pair
      MsgDef c; c.k = k++; c.circuit = "c1"; c.name = "cw"; c.level = r.chance(1, 3) ? "" : r.pick(POOL); c.dir = 'w'; c.legacy = false; c.zz = 0x08; c.cond = r.chance(1, 2) ? "old" : "new";
      MsgDef e = c; e.k = k++; e.cond = c.cond == "old" ? "new" : "old"; e.level = r.chance(1, 3) ? "" : r.pick(POOL);
      w.msgs.push_back(c); w.msgs.push_back(e);
    }
  }
  if (planted) {
    // users/messages carrying the planted pairs (exhaustive mode): user pK gets the grant list, message xK the level
    int idx = 0;
    for (auto& p : *planted) {
      UserDef u; u.name = "p" + std::to_string(idx); u.secret = "s"; u.levels = p.second; u.oneCell = (idx & 1) != 0; w.users.push_back(u);
      MsgDef m; m.k = k++; m.circuit = "c1"; m.name = "x" + std::to_string(idx); m.level = p.first; m.dir = (idx % 3 == 2) ? 'w' : 'r'; m.legacy = (idx % 5 == 4);
      m.zz = 0x08; w.msgs.push_back(m);
      idx++;
    }
  }
  return w;
}

struct Conn { std::string user; RequestMode mode; std::string refUser; };

static std::string telOf(const MsgDef& m) {
  char b[32]; snprintf(b, sizeof(b), "%02xb509", m.zz); return b;
}

/** the observable effects of one command on one message */
struct MsgObs { size_t prio; time_t lastUp; };

struct C16Runner {
  C16World& w;
  World& d;
  Rng& r;
  std::string tag;
  long long checks = 0, granted = 0, denied = 0;
  bool failed = false;
  int hwValue = -1;            // last value of c1/hw the daemon has seen
  C16Runner(C16World& w_, World& d_, Rng& r_, const std::string& t) : w(w_), d(d_), r(r_), tag(t) {}
  /** whether the definition is the one its circuit/name currently stands for */
  bool active(const MsgDef& m) const { return m.cond.empty() || (hwValue >= 0 && (m.cond == "old") == (hwValue < 2)); }
  static bool special(const MsgDef& m) { return m.name == "dup" || m.name == "rw" || !m.cond.empty() || m.isHw; }
  /** the daemon sees a new value of c1/hw on the bus (in a later second than the previous one) */
  void setHw(int v) {
    for (auto& m : w.msgs) if (m.isHw) {
      vbus::g.now += 1500000000LL;
      MasterSymbolString ms; SlaveSymbolString ss;
      ms.push_back(0x10); ms.push_back(m.zz); ms.push_back(0xb5); ms.push_back(0x09); ms.push_back(2); ms.push_back(0x0d); ms.push_back((symbol_t)m.k);
      ss.push_back(1); ss.push_back((symbol_t)v);
      hwValue = v;
      d.proto->injectMessage(ms, ss);
      vbus::g.now += 1500000000LL;
      st.n["condition_value_updates"]++;
    }
  }

  std::vector<MsgObs> snapshot() { std::vector<MsgObs> v; for (auto& m : w.msgs) v.push_back({m.msg->getPollPriority(), m.msg->getLastUpdateTime()}); return v; }
  const MsgDef* byId(const std::vector<uint8_t>& master) const {
    if (master.size() < 7 || master[2] != 0xb5 || master[3] != 0x09) return nullptr;
    for (auto& m : w.msgs) if (m.k == master[6] && (m.dir == 'w' ? 0x0e : 0x0d) == master[5]) return &m;
    return nullptr;
  }
  void fail(const std::string& key, const std::string& detail) {
    failed = true;
    violation(key, tag + " " + detail + " | world: " + w.str());
  }

  /** after a command issued with @a granted: nothing may have happened to messages that are not accessible */
  void checkSideEffects(const std::string& what, const std::string& grantedLv, const std::vector<MsgObs>& before, size_t sentFrom, const std::string& reply) {
    for (size_t i = sentFrom; i < d.proto->sent.size(); i++) {
      const MsgDef* m = byId(d.proto->sent[i].master);
      if (!m) { fail("c16-unknown-telegram", what + " sent " + hex(d.proto->sent[i].master)); continue; }
      if (!refAccess(m->level, grantedLv)) fail("c16-bus-access-without-level", what + " [granted '" + grantedLv + "'] sent " + hex(d.proto->sent[i].master) + " of " + m->circuit + "/" + m->name + "#" + m->level + " reply=" + reply);
    }
    auto after = snapshot();
    for (size_t i = 0; i < w.msgs.size(); i++) {
      auto& m = w.msgs[i];
      if (refAccess(m.level, grantedLv)) continue;
      if (after[i].prio != before[i].prio) fail("c16-poll-priority-without-level", what + " [granted '" + grantedLv + "'] changed priority of " + m.circuit + "/" + m.name + "#" + m.level);
      // (the cached data of an inaccessible read message may change: an authorized write to the message of the same circuit/name is mirrored into it)
    }
  }
  static bool isErr(const std::string& t) { return t.compare(0, 4, "ERR:") == 0 || t.compare(0, 6, "usage:") == 0; }
  static std::string valueOf(const MsgDef& m) { return std::to_string(100 + m.k); }

  void tcp(Conn& c, const std::string& line, const std::string& grantedLv, const MsgDef* target, bool expectValue, bool judgePositive, bool isWriteCmd = false) {
    auto before = snapshot();
    size_t sentFrom = d.proto->sent.size();
    vf::current(tag + " " + line);
    auto rep = d.command(line, &c.user, &c.mode);
    checks++;
    if (g_verbose) printf("CMD [%s|%s] %s -> %s  sent=%zu\n", c.user.c_str(), grantedLv.c_str(), line.c_str(), vf::oneline(rep.text).c_str(), d.proto->sent.size() - sentFrom);
    checkSideEffects("'" + line + "' as '" + c.user + "'", grantedLv, before, sentFrom, rep.text);
    if (!target) return;
    bool acc = refAccess(target->level, grantedLv);
    if (acc) granted++; else denied++;
    if (!acc && !isErr(rep.text) && expectValue) {
      // a value came back: it may stem from another message of that name (other circuit) the client has access to
      for (auto& o : w.msgs) if (&o != target && o.name == target->name && o.dir == target->dir && o.circuit != target->circuit && refAccess(o.level, grantedLv) && rep.text == valueOf(o)
                                 && line.find("-c ") == std::string::npos) acc = true;
      if (acc) return;
    }
    if (!acc) {
      if (!isErr(rep.text)) fail("c16-value-without-level", "'" + line + "' as '" + c.user + "' [granted '" + grantedLv + "'] on " + target->circuit + "/" + target->name + "#" + target->level + " answered '" + rep.text + "'");
    } else if (judgePositive) {
      bool ok = isWriteCmd ? rep.text == "done" : (expectValue ? rep.text == valueOf(*target) : !isErr(rep.text));
      if (!ok) fail("c16-denied-although-level-granted", "'" + line + "' as '" + c.user + "' [granted '" + grantedLv + "'] on " + target->circuit + "/" + target->name + "#" + target->level + " answered '" + rep.text + "'");
    }
  }

  void run() {
    // bind messages
    for (auto& m : w.msgs) {
      m.msg = d.messages->find(m.circuit, m.name, "*", m.dir == 'w', m.dir == 'u');
      if (!m.cond.empty()) {      // by ID (the name stands for whichever variant is active)
        MasterSymbolString ms;
        ms.push_back(0x31); ms.push_back(m.zz); ms.push_back(0xb5); ms.push_back(0x09); ms.push_back(m.dir == 'w' ? 3 : 2); ms.push_back(m.dir == 'w' ? 0x0e : 0x0d); ms.push_back((symbol_t)m.k);
        if (m.dir == 'w') ms.push_back(0);
        m.msg = d.messages->find(ms, false, true, true, true, false);
      }
      if (!m.msg || m.msg->getLevel() != m.level) { fail("c16-world-not-loaded", m.circuit + "/" + m.name + " level '" + (m.msg ? m.msg->getLevel() : "?") + "'"); return; }
    }
    int hwK = -1;
    for (auto& m : w.msgs) if (m.isHw) hwK = m.k;
    d.proto->answer = [this, hwK](const std::vector<uint8_t>& mb) -> std::vector<uint8_t> {
      if (mb.size() >= 7 && mb[5] == 0x0d && mb[6] == hwK) return {(uint8_t)hwValue};      // the device reports what it reported before
      if (mb.size() >= 7 && mb[5] == 0x0d) return {(uint8_t)(100 + mb[6])};
      return {};
    };
    if (hwK >= 0) setHw(r.range(0, 3));
    // some messages have data already (seen passively / read by the daemon itself)
    for (auto& m : w.msgs) if (m.dir != 'w' && m.cond.empty() && !m.isHw && r.chance(1, 2)) {
      MasterSymbolString ms; SlaveSymbolString ss;
      ms.push_back(m.dir == 'u' ? 0x10 : 0x31); ms.push_back(m.zz); ms.push_back(0xb5); ms.push_back(0x09); ms.push_back(2); ms.push_back(0x0d); ms.push_back((symbol_t)m.k);
      ss.push_back(1); ss.push_back((symbol_t)(100 + m.k));
      d.proto->injectMessage(ms, ss);
    }
    // connections: never authenticated, failed attempts, each user with the right secret
    std::vector<std::pair<std::string, std::string>> logins = {{"", ""}, {"nobody", "s1"}};
    for (auto& u : w.users) { logins.push_back({u.name, u.secret}); logins.push_back({u.name, u.secret + "x"}); }
    if (!w.users.empty()) logins.push_back({w.users[0].name, ""});
    for (auto& lg : logins) {
      Conn c; memset(&c.mode, 0, sizeof(c.mode));
      if (!lg.first.empty()) {
        std::string line = "auth " + lg.first + " " + (lg.second.empty() ? "\"\"" : lg.second);
        auto rep = d.command(line, &c.user, &c.mode);
        const UserDef* u = w.user(lg.first);
        bool ok = u && u->secret == lg.second;
        if (ok) c.refUser = lg.first;
        if (c.user != c.refUser) { fail("c16-auth-state", "'" + line + "' left user '" + c.user + "', expected '" + c.refUser + "' reply " + rep.text); return; }
        st.n[ok ? "logins_ok" : "logins_failed"]++;
      }
      std::string gl = w.granted(c.refUser);
      st.hist["granted_lists"][gl.empty() ? "(none)" : gl.find('*') != std::string::npos ? (gl == "*" ? "*" : "list-with-*") : "names"]++;
      // a few commands per message in random order
      std::vector<size_t> order; for (size_t i = 0; i < w.msgs.size(); i++) order.push_back(i);
      for (size_t i = order.size(); i > 1; i--) std::swap(order[i - 1], order[r.below((uint32_t)i)]);
      for (size_t oi : order) {
        MsgDef& m = w.msgs[oi];
        bool unique = m.name != "dup";
        vbus::g.now += (int64_t)r.pick(std::vector<int>{0, 1, 2, 400}) * 1000000000LL;
        char hexid[32];
        if (m.isHw) { if (r.chance(1, 2)) setHw(r.range(0, 3)); continue; }
        if (!m.cond.empty() && !active(m)) {
          // the value of c1/hw changes: from now on the name stands for this variant (or, half of the time, the turn of this one is skipped)
          if (r.chance(1, 2)) continue;
          setHw(m.cond == "old" ? r.range(0, 1) : r.range(2, 3));
        }
        if (!m.cond.empty()) st.n["commands_on_conditional_variants"]++;
        if (m.dir == 'r') {
          int form = m.cond.empty() ? r.range(0, 6) : r.range(0, 4);
          switch (form) {
            case 0: tcp(c, "read -f -c " + m.circuit + " " + m.name, gl, &m, true, true); break;
            case 1: tcp(c, "read -f " + m.name, gl, &m, true, unique); break;
            case 2: tcp(c, "read -c " + m.circuit + " " + m.name, gl, &m, true, true); break;
            case 3: tcp(c, "r -m 1 " + m.name + " v", gl, &m, true, unique); break;
            case 4: { size_t p = (size_t)r.range(1, 9); tcp(c, "read -p " + std::to_string(p) + " -c " + m.circuit + " " + m.name, gl, &m, true, true);
                      if (refAccess(m.level, gl) && m.msg->getPollPriority() == 0) fail("c16-denied-although-level-granted", "poll priority not set on " + m.name); break; }
            case 5: snprintf(hexid, sizeof(hexid), "%02xb509020d%02x", m.zz, m.k); tcp(c, std::string("read -f -h ") + hexid, gl, &m, false, true); break;
            default: snprintf(hexid, sizeof(hexid), "%02xb50902 0d%02x", m.zz, m.k); tcp(c, std::string("read -h ") + hexid, gl, &m, false, true); break;
          }
        } else if (m.dir == 'w') {
          int form = m.cond.empty() ? r.range(0, 2) : 0;
          switch (form) {
            case 0: tcp(c, "write -c " + m.circuit + " " + m.name + " " + std::to_string(r.range(0, 250)), gl, &m, false, true, true); break;
            case 1: snprintf(hexid, sizeof(hexid), "%02xb509030e%02x%02x", m.zz, m.k, r.range(0, 250)); tcp(c, std::string("write -h ") + hexid, gl, &m, false, true); break;
            default: snprintf(hexid, sizeof(hexid), "%02xb509030e%02x%02x", m.zz, m.k, r.range(0, 250)); tcp(c, std::string("w -c ") + m.circuit + " -h " + hexid, gl, &m, false, true); break;
          }
        } else {
          // passive: readable from the cache only
          bool has = m.msg->getLastUpdateTime() != 0;
          tcp(c, "read -c " + m.circuit + " " + m.name, gl, &m, true, has);
        }
        if (failed) return;
      }
      // listing commands: everything listed must be accessible, every accessible message must be listed
      for (const char* cmd : {"find", "find -a", "find -w", "find -c c1 -r", "find -d", "find -e -c c2 m"}) {
        auto before = snapshot(); size_t sentFrom = d.proto->sent.size();
        auto rep = d.command(cmd, &c.user, &c.mode);
        checks++;
        checkSideEffects(std::string("'") + cmd + "' as '" + c.user + "'", gl, before, sentFrom, "");
        std::set<std::string> listed;
        std::istringstream is(rep.text); std::string ln;
        while (std::getline(is, ln)) { size_t p = ln.find(" = "); if (p != std::string::npos) listed.insert(ln.substr(0, p)); }
        std::string sc(cmd);
        const bool all = sc == "find -a";       // -a: also the definitions that are not available due to their condition
        for (auto& m : w.msgs) {
          if (!all && !active(m)) continue;
          bool inList = listed.count(m.circuit + " " + m.name) > 0;
          bool acc = refAccess(m.level, gl);
          if (inList && !acc) {
            // another message of the same circuit/name (read vs write) may be the listed one
            bool other = false;
            for (auto& o : w.msgs) if (&o != &m && (all || active(o)) && o.circuit == m.circuit && o.name == m.name && refAccess(o.level, gl)) other = true;
            if (!other) fail("c16-listed-without-level", std::string("'") + cmd + "' as '" + c.user + "' [granted '" + gl + "'] lists " + m.circuit + "/" + m.name + "#" + m.level);
          }
          if (sc == "find -a" && acc && !inList) fail("c16-denied-although-level-granted", std::string("'") + cmd + "' as '" + c.user + "' [granted '" + gl + "'] misses " + m.circuit + "/" + m.name + "#" + m.level);
        }
        if (failed) return;
      }
      // HTTP: /data with and without credentials of this login
      for (int hv = 0; hv < 3; hv++) {
        std::string q, glh;
        const UserDef* u = w.user(lg.first);
        bool credOk = u && u->secret == lg.second;
        bool cred = !lg.first.empty();
        if (hv == 0 || !cred) { q = ""; glh = w.defaultGranted(); }
        else { q = "user=" + lg.first + "&secret=" + lg.second; glh = credOk ? w.granted(lg.first) : std::string("\x01") ; }
        std::string uri = hv == 2 ? "/data/c1" : "/data";
        std::string extra = r.chance(1, 2) ? "required" : (r.chance(1, 2) ? "maxage=1" : "");
        if (r.chance(1, 3)) extra += std::string(extra.empty() ? "" : "&") + "poll=" + std::to_string(r.range(1, 9));
        if (r.chance(1, 3)) extra += std::string(extra.empty() ? "" : "&") + "write=1";
        std::string query = q + (q.empty() || extra.empty() ? "" : "&") + extra;
        std::string line = "GET " + uri + (query.empty() ? "" : "?" + query) + " HTTP/1.1";
        auto before = snapshot(); size_t sentFrom = d.proto->sent.size();
        std::string hu; RequestMode hm; memset(&hm, 0, sizeof(hm));
        vf::current(tag + " " + line);
        auto rep = d.command(line, &hu, &hm, true);
        checks++;
        if (g_verbose) printf("HTTP %s -> %s\n", line.c_str(), vf::oneline(rep.text).substr(0, 300).c_str());
        bool rejected = glh == "\x01";
        if (rejected) glh = "";   // nothing may happen beyond what is open to everybody; and no data may be returned at all
        checkSideEffects("'" + line + "'", rejected ? std::string("") : glh, before, sentFrom, "");
        if (rejected) {
          if (rep.text.find(" 403 ") == std::string::npos || rep.text.find("\"messages\"") != std::string::npos) fail("c16-http-wrong-secret-served", "'" + line + "' -> " + rep.text.substr(0, 200));
          if (d.proto->sent.size() != sentFrom) fail("c16-bus-access-without-level", "'" + line + "' with wrong secret sent telegrams");
          st.n["http_rejected"]++;
        } else {
          for (auto& m : w.msgs) {
            if (!active(m)) continue;
            bool inList = rep.text.find("\"" + m.name + "\": {") != std::string::npos;
            bool acc = refAccess(m.level, glh);
            if (inList && !acc) {
              bool other = false;
              for (auto& o : w.msgs) if (&o != &m && active(o) && o.name == m.name && refAccess(o.level, glh)) other = true;
              if (!other) fail("c16-listed-without-level", "'" + line + "' [granted '" + glh + "'] returns " + m.circuit + "/" + m.name + "#" + m.level);
            }
            if (acc && !inList && hv != 2 && m.dir == 'r' && (extra.find("required") != std::string::npos || extra.find("maxage") != std::string::npos))
              fail("c16-denied-although-level-granted", "'" + line + "' [granted '" + glh + "'] misses " + m.circuit + "/" + m.name + "#" + m.level + " in " + rep.text.substr(0, 300));
          }
          st.n["http_served"]++;
        }
        if (failed) return;
      }
    }
    // MQTT sink (levels of the ACL user "mqtt" or the default ones)
    if (d.mqttHandler) {
      std::string gl = w.user("mqtt") ? w.granted("mqtt") : w.defaultGranted();
      StringReplacer topic; topic.parse(g_mqttTopic, true); topic.ensureDefault();
      for (auto& m : w.msgs) {
        if (m.name == "dup" || m.name == "rw" || m.isHw) continue;
        if (!m.cond.empty() && !active(m)) { if (r.chance(1, 2)) continue; setHw(m.cond == "old" ? r.range(0, 1) : r.range(2, 3)); }
        std::string t = topic.get(m.circuit, m.name, "v");
        std::string dir = m.dir == 'w' ? "set" : "get";
        std::string data = m.dir == 'w' ? std::to_string(r.range(0, 250)) : (r.chance(1, 3) ? "?" + std::to_string(r.range(1, 9)) : "");
        auto before = snapshot(); size_t sentFrom = d.proto->sent.size(); size_t pubFrom = d.mqtt->published.size();
        vf::current(tag + " mqtt " + t + "/" + dir + " " + data);
        d.mqttHandler->notifyMqttTopic(t + "/" + dir, data);
        checks++;
        checkSideEffects("mqtt '" + t + "/" + dir + "'", gl, before, sentFrom, "");
        bool acc = refAccess(m.level, gl);
        bool published = false;
        for (size_t i = pubFrom; i < d.mqtt->published.size(); i++) if (d.mqtt->published[i].topic.find(m.name) != std::string::npos) published = true;
        if (g_verbose) printf("MQTT [%s] %s/%s '%s' -> published=%d sent=%zu\n", gl.c_str(), t.c_str(), dir.c_str(), data.c_str(), published, d.proto->sent.size() - sentFrom);
        if (!acc && published) fail("c16-sink-publishes-without-level", "mqtt '" + t + "/" + dir + "' [sink levels '" + gl + "'] published " + m.circuit + "/" + m.name + "#" + m.level);
        if (acc && m.dir != 'u' && d.proto->sent.size() == sentFrom) fail("c16-denied-although-level-granted", "mqtt '" + t + "/" + dir + "' [sink levels '" + gl + "'] did not reach " + m.circuit + "/" + m.name + "#" + m.level);
        if (acc) granted++; else denied++;
        if (failed) return;
      }
      // list topic
      { size_t pubFrom = d.mqtt->published.size(); auto before = snapshot(); size_t sentFrom = d.proto->sent.size();
        d.mqttHandler->notifyMqttTopic(topic.get("", "", "") + "/list", "");
        checks++;
        checkSideEffects("mqtt list", gl, before, sentFrom, "");
        for (size_t i = pubFrom; i < d.mqtt->published.size(); i++) for (auto& m : w.msgs) {
          if (special(m)) continue;
          if (d.mqtt->published[i].topic == topic.get(m.circuit, m.name, "v") || d.mqtt->published[i].topic == topic.get(m.circuit, m.name, "")) {
            if (!refAccess(m.level, gl)) fail("c16-sink-publishes-without-level", "mqtt list [sink levels '" + gl + "'] published " + d.mqtt->published[i].topic + " of " + m.circuit + "/" + m.name + "#" + m.level);
          }
        }
      }
      st.n["mqtt_worlds"]++;
    }
  }
  /** threaded phase: the real MainLoop thread feeds the data sinks and serves listening clients */
  bool waitMqttRuns(long n) {
    long from = d.mqtt->runs.load();
    for (int i = 0; i < 4000 && d.mqtt->runs.load() < from + n; i++) vbus::realSleepUs(500);
    return d.mqtt->runs.load() >= from + n;
  }
  void injectUpdate(MsgDef& m, uint8_t value) {
    MasterSymbolString ms; SlaveSymbolString ss;
    ms.push_back(m.dir == 'u' ? 0x10 : 0x31); ms.push_back(m.zz); ms.push_back(0xb5); ms.push_back(0x09); ms.push_back(2); ms.push_back(0x0d); ms.push_back((symbol_t)m.k);
    ss.push_back(1); ss.push_back(value);
    d.messages->lock();
    d.proto->injectMessage(ms, ss);
    d.messages->unlock();
  }
  void threadedPhase() {
    d.startThreads();
    StringReplacer topic;
    if (d.mqttHandler) { topic.parse(g_mqttTopic, true); topic.ensureDefault(); }
    std::string sinkLv = w.user("mqtt") ? w.granted("mqtt") : w.defaultGranted();
    // listening clients: one per login state
    std::vector<std::pair<std::string, std::string>> logins = {{"", ""}};
    for (auto& u : w.users) { logins.push_back({u.name, u.secret}); if (r.chance(1, 3)) logins.push_back({u.name, u.secret + "x"}); }
    struct Listener { std::unique_ptr<RequestImpl> req; std::string granted, name; };
    std::vector<Listener> ls;
    for (auto& lg : logins) {
      Listener l; l.req.reset(new RequestImpl(false)); l.name = lg.first;
      std::string ref;
      if (!lg.first.empty()) {
        d.roundtrip(l.req.get(), "auth " + lg.first + " " + (lg.second.empty() ? "\"\"" : lg.second) + "\n");
        const UserDef* u = w.user(lg.first);
        if (u && u->secret == lg.second) ref = lg.first;
      }
      l.granted = w.granted(ref);
      std::string rep = d.roundtrip(l.req.get(), "listen\n");
      if (rep.find("listen started") == std::string::npos) { fail("c16-listen-not-started", "as '" + lg.first + "': " + rep); return; }
      ls.push_back(std::move(l));
    }
    for (int round = 0; round < 2; round++) {
      vbus::g.now += 2 * 1000000000LL;
      { RequestImpl sync(false); d.roundtrip(&sync, "info\n"); }          // the main loop passed its sink notification with the new time
      for (auto& l : ls) d.roundtrip(l.req.get(), "");                      // drain what listeners had pending
      if (d.mqttHandler && !waitMqttRuns(3)) { st.n["inconclusive_waits"]++; return; }
      size_t pubFrom = d.mqtt ? d.mqtt->publishedCount() : 0;
      std::vector<MsgDef*> updated;
      for (auto& m : w.msgs) if (m.dir != 'w' && !special(m) && r.chance(2, 3)) { injectUpdate(m, (uint8_t)(1 + round * 7 + r.range(0, 5))); updated.push_back(&m); }
      vbus::g.now += 2 * 1000000000LL;
      { RequestImpl sync(false); d.roundtrip(&sync, "info\n"); }
      // listeners
      for (auto& l : ls) {
        std::string rep = d.roundtrip(l.req.get(), "");
        checks++;
        std::set<std::string> listed;
        std::istringstream is(rep); std::string ln;
        while (std::getline(is, ln)) { size_t p = ln.find(" = "); if (p != std::string::npos) listed.insert(ln.substr(0, p)); }
        for (auto& m : w.msgs) {
          if (special(m)) continue;
          bool in = listed.count(m.circuit + " " + m.name) > 0, acc = refAccess(m.level, l.granted);
          bool upd = std::find(updated.begin(), updated.end(), &m) != updated.end();
          if (in && !acc) fail("c16-listed-without-level", "listening client '" + l.name + "' [granted '" + l.granted + "'] received " + m.circuit + "/" + m.name + "#" + m.level);
          if (upd && acc && !in) fail("c16-denied-although-level-granted", "listening client '" + l.name + "' [granted '" + l.granted + "'] did not receive the update of " + m.circuit + "/" + m.name + "#" + m.level + " reply=" + rep);
          if (upd) { if (acc) granted++; else denied++; }
        }
      }
      // the MQTT sink
      if (d.mqttHandler) {
        if (!waitMqttRuns(3)) { st.n["inconclusive_waits"]++; return; }
        auto pubs = d.mqtt->publishedFrom(pubFrom);
        checks++;
        for (auto& m : w.msgs) {
          if (special(m)) continue;
          std::string t1 = topic.get(m.circuit, m.name, "v"), t2 = topic.get(m.circuit, m.name, "");
          bool pub = false;
          for (auto& p : pubs) if (p.topic == t1 || p.topic == t2) pub = true;
          bool acc = refAccess(m.level, sinkLv);
          bool upd = std::find(updated.begin(), updated.end(), &m) != updated.end();
          if (pub && !acc) fail("c16-sink-publishes-without-level", "mqtt sink [levels '" + sinkLv + "'] published the update of " + m.circuit + "/" + m.name + "#" + m.level);
          if (upd && acc && !pub) fail("c16-denied-although-level-granted", "mqtt sink [levels '" + sinkLv + "'] did not publish the update of " + m.circuit + "/" + m.name + "#" + m.level);
          if (upd) { if (acc) granted++; else denied++; st.n["sink_update_decisions"]++; }
        }
      }
      if (failed) return;
    }
    st.n["threaded_worlds"]++;
  }
  static std::string g_mqttTopic;
};
std::string C16Runner::g_mqttTopic;

static void runC16(const vf::Args& a) {
  long n = (long)a.num("n", 100), only = (long)a.num("only", -1);
  bool exh = a.num("exh", 0) != 0;
  size_t from = (size_t)a.num("from", 0), to = (size_t)a.num("to", 0);
  std::string mt = a.str("mqtttopic", "");
  if (!mt.empty()) {
    C16Runner::g_mqttTopic = mt;
    if (!mqttOption("mqttport", "1883") || !mqttOption("mqtttopic", mt.c_str())) { fprintf(stderr, "mqtt options rejected\n"); exit(2); }
  }
  std::set<uint64_t> pairsSeen;
  const size_t perWorld = 12;
  size_t nPairs = POOL.size() * grantListCount();
  if (exh) { if (to == 0 || to > nPairs) to = nPairs; n = (long)((to - from + perWorld - 1) / perWorld); }
  for (long ci = 0; ci < n; ci++) {
    if (only >= 0 && ci != only) continue;
    Rng r(g_seed * 1000003ULL + (uint64_t)ci);
    std::vector<std::pair<std::string, std::vector<std::string>>> planted;
    if (exh) for (size_t p = from + (size_t)ci * perWorld; p < to && planted.size() < perWorld; p++) planted.push_back({POOL[p % POOL.size()], grantList(p / POOL.size())});
    C16World w = buildWorld(r, exh ? &planted : nullptr);
    WorldOptions wo;
    wo.acl = w.acl(); wo.accessLevel = (w.defaultKind == 1 || w.defaultKind == 3) ? join(w.defOpt, r.chance(1, 2) ? "," : ";") : "";
    wo.definitions = w.csv();
    std::string tag = "case=" + std::to_string(ci);
    vf::current(tag + " build");
    vbus::g.now = (1700000000LL + (int64_t)r.below(1000000)) * 1000000000LL;
    World d(wo);
    if (d.loadResult != RESULT_OK) { violation("c16-world-not-loaded", tag + " " + getResultCode(d.loadResult) + " " + d.loadError + " csv=" + wo.definitions); continue; }
    if (g_verbose) printf("WORLD %s\nACL\n%sCSV\n%s", w.str().c_str(), wo.acl.c_str(), wo.definitions.c_str());
    { std::string err; result_t rr = d.messages->resolveConditions(false, &err);
      if (rr != RESULT_OK) { violation("c16-world-not-loaded", tag + " resolveConditions " + getResultCode(rr) + " " + err + " csv=" + wo.definitions); continue; } }
    C16Runner run(w, d, r, tag);
    run.run();
    if (!run.failed && a.num("threads", 0) != 0 && (ci % (long)a.num("threads", 1)) == 0) run.threadedPhase();
    st.n["evaluations"] += run.checks;
    st.n["worlds"]++;
    st.n["decisions_granted"] += run.granted; st.n["decisions_denied"] += run.denied;
    st.n["telegrams_sent"] += (long long)d.proto->sent.size();
    if (run.granted > 0 && run.denied > 0) st.n["distinct_nontrivial"]++;
    for (auto& u : w.users) for (auto& m : w.msgs) if (!m.level.empty()) pairsSeen.insert(vf::fnv(m.level + "|" + join(u.levels, ";")));
    if (st.lists["samples"].size() < 4) st.sample("samples", tag + " " + w.str().substr(0, 300));
  }
  st.n["level_grant_pairs_in_worlds"] += (long long)pairsSeen.size();
}

// direct exhaustive check of the matching predicate (Message::checkLevel) against the reference
static void runLevels(const vf::Args& a) {
  long long cnt = 0, yes = 0;
  std::vector<std::string> lv = POOL; lv.push_back("");
  for (size_t g = 0; g < grantListCount(); g++) {
    std::string gl = join(grantList(g), ";");
    for (auto& l : lv) {
      bool got = Message::checkLevel(l, gl), exp = refAccess(l, gl);
      cnt++; if (exp) yes++;
      if (got != exp) violation(got ? "c16-checklevel-grants-without-level" : "c16-checklevel-denies-granted", "checkLevel('" + l + "', '" + gl + "') = " + (got ? "true" : "false"));
    }
  }
  // longer names and lists at random, including tokens that embed the level
  Rng r(g_seed * 7919 + 5);
  long n = (long)a.num("n", 100000);
  for (long i = 0; i < n; i++) {
    std::string l; for (int k = r.range(1, 4); k > 0; k--) l += r.chance(1, 2) ? 'a' : 'b';
    std::vector<std::string> toks;
    for (int k = r.range(0, 5); k > 0; k--) {
      int kind = r.range(0, 5); std::string t;
      if (kind == 0) t = l; else if (kind == 1) t = l + (r.chance(1, 2) ? "a" : "b"); else if (kind == 2) t = (r.chance(1, 2) ? "a" : "b") + l;
      else if (kind == 3) t = "*"; else if (kind == 4) t = l.substr(0, l.size() - 1); else { for (int q = r.range(1, 4); q > 0; q--) t += r.chance(1, 2) ? 'a' : 'b'; }
      if (kind == 3 && !r.chance(1, 4)) continue;
      toks.push_back(t);
    }
    std::string gl = join(toks, ";");
    bool got = Message::checkLevel(l, gl), exp = refAccess(l, gl);
    cnt++; if (exp) yes++;
    if (got != exp) violation(got ? "c16-checklevel-grants-without-level" : "c16-checklevel-denies-granted", "checkLevel('" + l + "', '" + gl + "') = " + (got ? "true" : "false"));
  }
  st.n["evaluations"] += cnt; st.n["checklevel_pairs"] += cnt; st.n["checklevel_granting_pairs"] += yes;
}


// ---------------------------------------------------------------------------------------------------------------------
// C18 (a): command line splitting
/** reference: blanks separate (repeated blanks once); a token starting with a quote character extends up to the first
 *  occurrence of that quote character that ends a token (is followed by a blank or the end); quotes are removed */
static std::vector<std::string> refSplit(const std::string& line, bool* unterminated = nullptr) {
  std::vector<std::string> out;
  if (unterminated) *unterminated = false;
  size_t n = line.size(), i = 0;
  while (i < n) {
    if (line[i] == ' ') { i++; continue; }
    if (line[i] == '"' || line[i] == '\'') {
      char q = line[i];
      size_t j = i + 1;
      bool closed = false;
      for (; j < n; j++) if (line[j] == q && (j + 1 == n || line[j + 1] == ' ')) { closed = true; break; }
      out.push_back(line.substr(i + 1, j - (i + 1)));
      i = closed ? j + 1 : n;
      if (!closed && unterminated) *unterminated = true;
      continue;
    }
    size_t j = line.find(' ', i);
    if (j == std::string::npos) j = n;
    out.push_back(line.substr(i, j - i));
    i = j;
  }
  return out;
}
static std::string showArgs(const std::vector<std::string>& v) { std::string s = "["; for (auto& a : v) s += "<" + a + ">"; return s + "]"; }

static bool splitCase(Rng& r, const std::string& line, const std::vector<std::string>* expectArgs, const std::string& tag) {
  RequestImpl req(false);
  // delivered in pieces, with or without CR
  std::string wire = line + (r.chance(1, 2) ? "\r\n" : "\n");
  size_t pos = 0; bool complete = false;
  while (pos < wire.size()) {
    size_t len = r.chance(1, 3) ? wire.size() - pos : (size_t)r.range(1, 4);
    if (len > wire.size() - pos) len = wire.size() - pos;
    bool c = req.add(wire.substr(pos, len).c_str());
    pos += len;
    if (c && pos < wire.size()) { violation("c18-line-complete-too-early", tag + " line=<" + line + "> after " + std::to_string(pos) + " bytes"); return false; }
    complete = c;
  }
  if (!complete) { violation("c18-line-not-complete", tag + " line=<" + line + ">"); return false; }
  std::vector<std::string> got;
  req.split(&got);
  bool unterminated = false;
  std::vector<std::string> ref = refSplit(line, &unterminated);
  if (unterminated && got.size() == ref.size() && !ref.empty()) {
    // no token ends with the opening quote: the statement does not say where the argument ends; trailing blanks are not judged
    st.n["unterminated_quote_lines"]++;
    auto rtrim = [](std::string x) { while (!x.empty() && x.back() == ' ') x.pop_back(); return x; };
    got.back() = rtrim(got.back()); ref.back() = rtrim(ref.back());
  }
  st.n["evaluations"]++;
  if (ref.size() >= 2) st.n["distinct_nontrivial"]++;
  if (got != ref) { violation("c18-split-differs", tag + " line=<" + line + "> split=" + showArgs(got) + " expected=" + showArgs(ref)); return false; }
  if (expectArgs && ref != *expectArgs) { violation("c18-split-differs", tag + " line=<" + line + "> reference split " + showArgs(ref) + " differs from the encoded arguments " + showArgs(*expectArgs)); return false; }
  return true;
}

static void runC18a(const vf::Args& a) {
  static const char AL[] = {'a', 'b', ' ', '"', '\''};
  int maxLen = (int)a.num("len", 7);
  long from = (long)a.num("from", 0), stride = (long)a.num("stride", 1);
  Rng r(g_seed * 31 + 7);
  long idx = 0, fails = 0;
  for (int len = 0; len <= maxLen && fails < 20; len++) {
    long total = 1; for (int i = 0; i < len; i++) total *= 5;
    for (long x = 0; x < total && fails < 20; x++, idx++) {
      if (idx % stride != from) continue;
      std::string line; long y = x;
      for (int i = 0; i < len; i++) { line += AL[y % 5]; y /= 5; }
      if (!splitCase(r, line, nullptr, "exh")) fails++;
    }
  }
  st.n["exhaustive_lines"] += st.n["evaluations"];
  // argument lists encoded by a client
  long n = (long)a.num("n", 20000);
  for (long i = 0; i < n && fails < 20; i++) {
    std::vector<std::string> args; std::string line;
    bool ok = true;
    int na = r.range(1, 5);
    for (int k = 0; k < na && ok; k++) {
      std::string arg; for (int l = r.range(0, 6); l > 0; l--) arg += r.chance(1, 3) ? AL[r.range(2, 4)] : AL[r.range(0, 1)];
      bool needQuote = arg.empty() || arg.find(' ') != std::string::npos || arg[0] == '"' || arg[0] == '\'';
      std::string enc = arg;
      if (needQuote) {
        ok = false;
        for (char q : r.chance(1, 2) ? std::string("\"'") : std::string("'\"")) {
          bool bad = !arg.empty() && arg.back() == q;
          for (size_t p = 0; p + 1 < arg.size(); p++) if (arg[p] == q && arg[p + 1] == ' ') bad = true;
          if (!bad) { enc = std::string(1, q) + arg + q; ok = true; break; }
        }
      }
      if (!ok) break;
      if (k) line += std::string((size_t)r.range(1, 3), ' ');
      line += enc;
      args.push_back(arg);
    }
    if (!ok) { st.n["unencodable_argument_lists"]++; continue; }
    if (r.chance(1, 4)) line = std::string((size_t)r.range(1, 2), ' ') + line;
    if (r.chance(1, 4)) line += std::string((size_t)r.range(1, 2), ' ');
    st.n["encoded_argument_lists"]++;
    if (!splitCase(r, line, &args, "enc")) fails++;
  }
}

// ---------------------------------------------------------------------------------------------------------------------
// C18 (b): HTTP percent decoding and root confinement
struct Www {
  std::string base, root, rootReal;
  std::map<std::string, std::string> inside;    // relative path -> content
  void mk(const std::string& dir) { std::string cmd = "mkdir -p '" + dir + "'"; if (system(cmd.c_str())) {} }
  void build() {
    base = tmpDir() + "/www"; root = base + "/htdocs/root";
    mk(root);
    // outside the root: everything carries the marker
    for (const char* f : {"/index.html", "/secret.html", "/htdocs/index.html", "/htdocs/secret.html", "/htdocs/a/index.html", "/htdocs/e/index.html", "/htdocs/rootx/index.html",
                          "/htdocs/%2e/index.html", "/htdocs/^/index.html"}) {
      std::string p = base + f; mk(p.substr(0, p.rfind('/')));
      writeFile(p, std::string("OUTSIDE-ROOT ") + f);
    }
    writeFile(tmpDir() + "/index.html", "OUTSIDE-ROOT tmp index");
    // inside: directories whose names are reachable by decoding once (and literal ones that look like escapes)
    for (const char* d : {"", "/a", "/e", "/a/e", "/^", "/_", "/U", "/R", "/Z", "/*", "/%2e", "/%2f", "/%25", "/%2e%2e", "/%", "/a/%2e", "/.a", "/a.", "/a/a", "/a/f", "/f", "/E", "/2", "/5", "/a b"}) {
      std::string dir = root + d; mk(dir);
      std::string rel = std::string(d) + "/index.html";
      inside[rel] = "INSIDE " + rel;
      writeFile(root + rel, inside[rel]);
    }
    for (const char* f : {"/a.html", "/a/b.js", "/e.css", "/pic.png", "/x.jpeg", "/d.json", "/notes.txt", "/a/readme", "/a b.html", "/a/c.yaml", "/t.csv", "/s.svg", "/p.jpg", "/x.html5", "/ee.e"}) {
      inside[f] = std::string("INSIDE ") + f;
      writeFile(root + f, inside[f]);
    }
    char rp[PATH_MAX];
    rootReal = realpath(root.c_str(), rp) ? rp : root;
  }
};

static bool hexDigit(char c) { return (c >= '0' && c <= '9') || (c >= 'a' && c <= 'f') || (c >= 'A' && c <= 'F'); }
static int hexVal(char c) { return c <= '9' ? c - '0' : (c | 0x20) - 'a' + 10; }
/** RFC 3986 percent decoding, once, left to right; *malformed when a '%' is not followed by two hex digits */
static std::string refDecode(const std::string& s, bool* malformed) {
  std::string o; *malformed = false;
  for (size_t i = 0; i < s.size(); i++) {
    if (s[i] != '%') { o += s[i]; continue; }
    if (i + 2 < s.size() + 0 && i + 2 <= s.size() - 1 + 0 && hexDigit(s[i + 1]) && hexDigit(s[i + 2])) { o += (char)(hexVal(s[i + 1]) * 16 + hexVal(s[i + 2])); i += 2; }
    else { *malformed = true; o += s[i]; }
  }
  return o;
}
static const char* EXTS[] = {"html", "css", "js", "png", "jpg", "jpeg", "svg", "json", "yaml", "csv"};

struct HttpJudge {
  Www& www; World& d;
  long fails = 0;
  HttpJudge(Www& w_, World& d_) : www(w_), d(d_) {}
  void one(const std::string& uri, const std::string& tag) {
    std::string line = "GET " + uri + " HTTP/1.1";
    std::string hu; RequestMode hm; memset(&hm, 0, sizeof(hm));
    vf::current(tag + " " + line);
    RequestImpl req(true);
    std::string wire = line + "\r\nHost: x\r\n\r\n";
    if (!req.add(wire.c_str())) { violation("c18-http-request-not-complete", tag + " " + line); fails++; return; }
    bool connected = true, reload = false; std::ostringstream out;
    d.loop->decodeRequest(&req, &connected, &hm, &hu, &reload, &out);
    std::string rep = out.str();
    st.n["evaluations"]++;
    size_t he = rep.find("\r\n\r\n");
    std::string head = he == std::string::npos ? rep : rep.substr(0, he), body = he == std::string::npos ? "" : rep.substr(he + 4);
    bool is200 = head.compare(0, 12, "HTTP/1.0 200") == 0;
    st.hist["http_status"][head.substr(0, head.find('\r')).substr(0, 16)]++;
    if (rep.find("OUTSIDE-ROOT") != std::string::npos) { violation("c18-http-served-outside-root", tag + " '" + uri + "' returned " + vf::oneline(body).substr(0, 80)); fails++; return; }
    // reference
    std::string path = uri.substr(0, uri.find('?'));
    bool malformed;
    std::string p = refDecode(path, &malformed);
    if (malformed) { st.n["malformed_escape_uris"]++; return; }
    if (p.find('?') != std::string::npos || p.find('\n') != std::string::npos) { st.n["decoded_separator_uris"]++; return; }   // not judged (see assumptions)
    bool legal = !p.empty() && p[0] == '/' && p.find("//") == std::string::npos && p.find("..") == std::string::npos;
    std::string rel = p;
    if (!rel.empty() && rel.back() == '/') rel += "index.html";
    bool ext = false;
    size_t dot = rel.find_last_of('.');
    size_t slash = rel.find_last_of('/');
    if (dot != std::string::npos && (slash == std::string::npos || dot > slash)) for (const char* e : EXTS) if (rel.substr(dot + 1) == e) ext = true;
    // the file system decides which file a legal path names ("." segments)
    auto it = www.inside.end();
    if (legal && p.find('\0') == std::string::npos) {
      char rp[PATH_MAX];
      if (realpath((www.root + rel).c_str(), rp)) {
        std::string res = rp;
        if (res.compare(0, www.rootReal.size() + 1, www.rootReal + "/") == 0) it = www.inside.find(res.substr(www.rootReal.size()));
      }
    }
    bool expect200 = legal && ext && it != www.inside.end();
    if (expect200) st.n["distinct_nontrivial"]++;
    if (path.find('%') != std::string::npos && expect200) st.n["served_after_decoding"]++;
    if (is200 && !expect200) {
      violation("c18-http-serves-unexpected", tag + " '" + uri + "' (decoded once: '" + p + "') answered 200 with " + vf::oneline(body).substr(0, 80)); fails++; return; }
    if (!is200 && expect200) { violation("c18-http-not-decoded-once", tag + " '" + uri + "' (decoded once: '" + p + "' = existing file) answered " + head.substr(0, 30)); fails++; return; }
    if (is200 && body != it->second) { violation("c18-http-wrong-file", tag + " '" + uri + "' (decoded once: '" + p + "') returned " + vf::oneline(body).substr(0, 80)); fails++; return; }
  }
};

static std::string pctEncode(Rng& r, const std::string& s, int mode) {
  // mode 0: unreserved left alone sometimes, 1: every char, upper/lower hex mixed
  std::string o; char b[8];
  for (unsigned char c : s) {
    bool enc = mode == 1 || r.chance(1, 3) || c == ' ' || c == '%' || c == '^' || c == '*';
    if (c == '/' && mode == 0 && !r.chance(1, 6)) enc = false;
    if (enc) { snprintf(b, sizeof(b), r.chance(1, 2) ? "%%%02x" : "%%%02X", c); o += b; } else o += (char)c;
  }
  return o;
}

static void runC18b(const vf::Args& a) {
  Www www; www.build();
  WorldOptions wo; wo.htmlPath = www.root;
  World d(wo);
  HttpJudge j(www, d);
  static const char AL[] = {'%', '2', '5', 'e', 'E', 'f', '/', '.', '?', 'a'};
  int maxLen = (int)a.num("len", 5);
  long from = (long)a.num("from", 0), stride = (long)a.num("stride", 1), idx = 0;
  for (int len = 0; len <= maxLen && j.fails < 20; len++) {
    long total = 1; for (int i = 0; i < len; i++) total *= 10;
    for (long x = 0; x < total && j.fails < 20; x++, idx++) {
      if (idx % stride != from) continue;
      std::string uri = "/"; long y = x;
      for (int i = 0; i < len; i++) { uri += AL[y % 10]; y /= 10; }
      j.one(uri, "exh");
      if (len <= 3 && x % 3 == 0) j.one(uri.substr(1).empty() ? "a" : uri.substr(1), "exh-noslash");
    }
  }
  st.n["exhaustive_uris"] += st.n["evaluations"];
  // longer ones: real and escaping paths, encoded once or twice
  Rng r(g_seed * 131 + 3);
  long n = (long)a.num("n", 20000);
  std::vector<std::string> rels; for (auto& kv : www.inside) rels.push_back(kv.first);
  static const std::vector<std::string> ESC = {"/../index.html", "/../secret.html", "/../../index.html", "/a/../../index.html", "/a/../../secret.html", "//index.html", "/../a/index.html",
    "/a/../..//secret.html", "/..", "/../", "/./../secret.html", "/a/e/../../../secret.html", "/../rootx/index.html", "/../root/a.html", "/a//b.js", "/../%2e/index.html", "/../^/index.html",
    "/../../../../../../../../etc/passwd", "/../../../../../../../../etc/hostname"};
  for (long i = 0; i < n && j.fails < 20; i++) {
    std::string pth = r.chance(1, 2) ? r.pick(rels) : r.pick(ESC);
    if (pth.size() > 11 && pth.compare(pth.size() - 11, 11, "/index.html") == 0 && r.chance(1, 2)) pth.resize(pth.size() - 10);
    std::string uri;
    int how = r.range(0, 5);
    if (how == 0) uri = pth;
    else if (how <= 2) uri = pctEncode(r, pth, 0);
    else if (how == 3) uri = pctEncode(r, pth, 1);
    else { uri = pctEncode(r, pctEncode(r, pth, how == 4 ? 0 : 1), 0); st.n["double_encoded_uris"]++; }
    if (uri.find("%3f") != std::string::npos || uri.find("%3F") != std::string::npos) continue;
    if (r.chance(1, 8)) uri += "?x=1&y=%2e%2e";
    j.one(uri, "rnd");
  }
}

// ---------------------------------------------------------------------------------------------------------------------
// C18 (c): topic template formatting and matching
static const std::vector<std::string> IDENTS = {"a", "b", "ab", "ba", "a.b", "a_b", "x", "xa", "ax", "a1", "s", "set", "get", "list", "y", "e", "ebusd"};

static void runC18c(const vf::Args& a) {
  Rng r(g_seed * 17 + 11);
  static const std::vector<std::string> PRE = {"", "ebusd/", "e-", "x/y/", "/"}, SEP = {"/", "-x/", "/y-", "--", "/a/", "-"}, SUF = {"", "/s", "-"};
  static const char* F[] = {"circuit", "name", "field"};
  long fails = 0;
  // all orders of all non-empty subsets
  std::vector<std::vector<int>> orders;
  int perm[6][3] = {{0, 1, 2}, {0, 2, 1}, {1, 0, 2}, {1, 2, 0}, {2, 0, 1}, {2, 1, 0}};
  std::set<std::vector<int>> seen;
  for (auto& p : perm) for (int k = 1; k <= 3; k++) { std::vector<int> o(p, p + k); if (seen.insert(o).second) orders.push_back(o); }
  for (auto& o : orders) for (auto& pre : PRE) for (auto& suf : SUF) for (size_t s1 = 0; s1 < SEP.size(); s1++) for (size_t s2 = 0; s2 < SEP.size(); s2++) {
    if (o.size() < 3 && s2 > 0) continue;
    if (o.size() < 2 && s1 > 0) continue;
    for (int braces = 0; braces < 2; braces++) {
      std::string tmpl = pre;
      for (size_t i = 0; i < o.size(); i++) {
        if (i) tmpl += i == 1 ? SEP[s1] : SEP[s2];
        tmpl += braces ? std::string("%{") + F[o[i]] + "}" : std::string("%") + F[o[i]];
      }
      tmpl += suf;
      StringReplacer rep;
      if (!rep.parse(tmpl, true, true)) { violation("c18-template-rejected", tmpl); fails++; continue; }
      if (!rep.checkMatchability()) { violation("c18-template-not-matchable", tmpl); fails++; continue; }
      st.n["templates"]++;
      bool hasF[3] = {false, false, false}; for (int x : o) hasF[x] = true;
      int per = (int)a.num("per", 40);
      for (int k = 0; k < per && fails < 20; k++) {
        std::string v[3] = {r.pick(IDENTS), r.pick(IDENTS), r.pick(IDENTS)};
        std::map<std::string, std::string> values;
        for (int x = 0; x < 3; x++) if (hasF[x]) values[F[x]] = v[x];
        std::string topic = rep.get(values, true);
        // expected text by construction
        std::string exp = pre;
        for (size_t i = 0; i < o.size(); i++) { if (i) exp += i == 1 ? SEP[s1] : SEP[s2]; exp += v[o[i]]; }
        exp += suf;
        st.n["evaluations"]++;
        if (topic != exp) { violation("c18-topic-format", "template '" + tmpl + "' values " + v[0] + "," + v[1] + "," + v[2] + " gives '" + topic + "' expected '" + exp + "'"); fails++; continue; }
        // as MqttHandler::notifyMqttTopic: strip the direction, then match
        for (const char* dir : {"get", "set", "list"}) {
          std::string full = topic + "/" + dir;
          std::string mt = full.substr(0, full.rfind('/'));
          std::string c, nm, f;
          ssize_t m = rep.match(mt, &c, &nm, &f);
          std::string got[3] = {c, nm, f};
          bool ok = m >= 0;
          for (int x = 0; x < 3; x++) if (hasF[x] ? got[x] != v[x] : !got[x].empty()) ok = false;
          if (!ok) { violation("c18-topic-match", "template '" + tmpl + "' topic '" + full + "' built from (" + (hasF[0] ? v[0] : "") + "," + (hasF[1] ? v[1] : "") + "," + (hasF[2] ? v[2] : "") + ") matched as (" + c + "," + nm + "," + f + ") rc=" + std::to_string((long)m)); fails++; break; }
        }
        if (o.size() == 3) st.n["distinct_nontrivial"]++;
      }
    }
  }
}

// C18 (c2): through the real MqttHandler: the message read/written on the stub bus is the one the topic was built for
static void runC18m(const vf::Args& a) {
  std::string mt = a.str("mqtttopic", "ebusd/%circuit/%name");
  if (!mqttOption("mqttport", "1883") || !mqttOption("mqtttopic", mt.c_str())) { fprintf(stderr, "mqtt options rejected\n"); exit(2); }
  StringReplacer topic; topic.parse(mt, true); topic.ensureDefault();
  Rng r(g_seed * 19 + 1);
  long n = (long)a.num("n", 30);
  for (long ci = 0; ci < n; ci++) {
    // messages: circuits x names from the identifier pool, unique IDs
    struct M { std::string c, nme; int k; bool w; };
    std::vector<M> ms; std::set<std::string> used;
    std::string csv = "type,circuit,level,name,comment,qq,zz,pbsb,id,*name,part,type,divisor/values,unit,comment\n";
    int k = 1;
    for (int i = 0; i < 24; i++) {
      M m{r.pick(IDENTS), r.pick(IDENTS), k, r.chance(1, 3)};
      std::string key = m.c + "|" + m.nme + (m.w ? "|w" : "|r");
      if (!used.insert(key).second) continue;
      char b[200]; snprintf(b, sizeof(b), "%s,%s,,%s,,,08,b509,%02x%02x,v,,UCH,,,\n", m.w ? "w" : "r", m.c.c_str(), m.nme.c_str(), m.w ? 0x0e : 0x0d, k);
      csv += b; ms.push_back(m); k++;
    }
    WorldOptions wo; wo.definitions = csv;
    World d(wo);
    if (d.loadResult != RESULT_OK || !d.mqttHandler) { violation("c18-world-not-loaded", std::string(getResultCode(d.loadResult)) + " " + d.loadError); return; }
    d.proto->answer = [](const std::vector<uint8_t>& mb) -> std::vector<uint8_t> { if (mb.size() >= 7 && mb[5] == 0x0d) return {(uint8_t)(100 + mb[6])}; return {}; };
    for (auto& m : ms) {
      std::string t = topic.get(m.c, m.nme, "v") + (m.w ? "/set" : "/get");
      size_t from = d.proto->sent.size(), pubFrom = d.mqtt->published.size();
      vf::current("c18m " + mt + " " + t);
      d.mqttHandler->notifyMqttTopic(t, m.w ? "7" : "");
      st.n["evaluations"]++; st.n["distinct_nontrivial"]++;
      bool ok = d.proto->sent.size() == from + 1 && d.proto->sent[from].master.size() >= 7 && d.proto->sent[from].master[6] == m.k && d.proto->sent[from].master[5] == (m.w ? 0x0e : 0x0d);
      if (!ok) { violation("c18-topic-reaches-wrong-message", "template '" + mt + "' topic '" + t + "' for " + m.c + "/" + m.nme + (m.w ? " (write)" : " (read)") + " sent " +
                           (d.proto->sent.size() > from ? hex(d.proto->sent[from].master) : std::string("nothing"))); break; }
      // and the value is published under the topic of that message
      bool pub = false;
      for (size_t i = pubFrom; i < d.mqtt->published.size(); i++) if (d.mqtt->published[i].topic == topic.get(m.c, m.nme, "v") || d.mqtt->published[i].topic == topic.get(m.c, m.nme, "")) pub = true;
      if (!pub && !m.w) { violation("c18-topic-reaches-wrong-message", "template '" + mt + "' topic '" + t + "': nothing published under the topic of " + m.c + "/" + m.nme); break; }
    }
    st.n["worlds"]++;
  }
}

int main(int argc, char** argv) {
  vf::Args a(argc, argv);
  vf::installDeathCallback();
  g_verbose = a.num("verbose", 0) != 0;
  g_seed = (uint64_t)a.num("seed", 1);
  setFacilitiesLogLevel(-1, ll_none);
  std::string mode = a.str("mode", "c16");
  if (mode == "c16") runC16(a);
  else if (mode == "levels") runLevels(a);
  else if (mode == "c18a") runC18a(a);
  else if (mode == "c18b") runC18b(a);
  else if (mode == "c18c") runC18c(a);
  else if (mode == "c18m") runC18m(a);
  else { fprintf(stderr, "unknown mode\n"); return 2; }
  st.emit();
  if (!g_tmpDir.empty()) { std::string cmd = "rm -rf '" + g_tmpDir + "'"; if (system(cmd.c_str())) {} }
  return 0;
}
