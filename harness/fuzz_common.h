// shared by the libFuzzer harnesses (C20): violation reporting, hang watchdog on real time
#ifndef VERIF_FUZZ_COMMON_H_
#define VERIF_FUZZ_COMMON_H_
#include <pthread.h>
#include <signal.h>
#include <time.h>
#include <atomic>
#include <cstdio>
#include <cstdlib>
#include <cstring>
#include <string>
#include "hcommon.h"

namespace fz {

/** a monitor verdict inside a fuzz target: print the witness and die like a sanitizer report would (libFuzzer stores the unit) */
[[noreturn]] inline void violation(const char* key, const std::string& detail) {
  fprintf(stderr, "\nVERIF-VIOLATION\t%s\t%s\n", key, vf::oneline(detail).c_str());
  fflush(stderr);
  abort();
}

// watchdog: libFuzzer's own -timeout relies on the wall clock, which the harness virtualises while a unit runs; so a
// thread on the monotonic clock watches the running unit and aborts the process (libFuzzer's crash handler writes the unit)
static std::atomic<long> g_unitSeq{0};
static std::atomic<bool> g_inUnit{false};
static pthread_t g_mainThread;
inline void* watchdogMain(void*) {
  long lastSeq = -1; int same = 0;
  long limit = getenv("VERIF_HANG_SECONDS") ? atol(getenv("VERIF_HANG_SECONDS")) : 25;
  for (;;) {
    struct timespec ts = {1, 0};
    nanosleep(&ts, nullptr);
    long s = g_unitSeq.load();
    if (g_inUnit.load() && s == lastSeq) {
      if (++same >= limit) {
        fprintf(stderr, "\nVERIF-VIOLATION\tc20-hang\tunit still running after %ld s of real time\n", limit);
        fflush(stderr);
        pthread_kill(g_mainThread, SIGABRT);
        struct timespec t2 = {5, 0}; nanosleep(&t2, nullptr);
        _exit(70);
      }
    } else { same = 0; lastSeq = s; }
  }
  return nullptr;
}
inline void startWatchdog() {
  static bool started = false;
  if (started) return;
  started = true;
  g_mainThread = pthread_self();
  pthread_t t;
  pthread_create(&t, nullptr, watchdogMain, nullptr);
  pthread_detach(t);
}
struct UnitScope {
  UnitScope() { g_unitSeq++; g_inUnit = true; }
  ~UnitScope() { g_inUnit = false; }
};

}  // namespace fz
#endif
