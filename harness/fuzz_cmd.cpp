// libFuzzer target (C20): arbitrary client command lines and HTTP requests into RequestImpl + MainLoop::decodeRequest of a
// freshly built daemon world (definitions loaded, hex/define enabled, stub protocol answering with input-derived bytes);
// afterwards a fixed read must still return the known value.
// input: lines separated by '\n'; a line starting with "GET "/"POST "/"PUT " is sent as an HTTP request, others as TCP commands
// on one connection (auth/listen/direct state carries over).
#include "daemon_sim.h"
#include "fuzz_common.h"

namespace ebusd {
MqttClient* MqttClient::create(mqtt_client_config_t config, MqttClientListener* listener) {
  auto c = new dsim::FakeMqttClient(config, listener);
  dsim::g_lastMqttClient = c;
  return c;
}
}  // namespace ebusd
namespace dsim { FakeMqttClient* g_lastMqttClient = nullptr; }
using namespace dsim;  // NOLINT

static const char* DEFS =
  "type,circuit,level,name,comment,qq,zz,pbsb,id,*name,part,type,divisor/values,unit,comment\n"
  "r,probe,,pm,,,08,b509,0d7f,v,,UCH,,,\n"
  "r,c1,,temp,outside,,08,b509,0d01,t,,D2C,,°C,temperature\n"
  "r,c1,a,secret,,,08,b509,0d02,v,,UIN,10,,\n"
  "w,c1,,temp,,,08,b509,0e01,t,,D2C,,°C,\n"
  "r3,c1,,multi,,,15,b509,0d03,a,,UCH,,,,b,,SCH,,,,s,,STR:4,,,,d,,BDA,,,,tt,,BTI,,,\n"
  "u,c2,,state,,10,fe,b516,10,st,,UCH,0=off;1=on;2=auto,,,x,,IGN:1,,,,bits,,BI0:3,,,\n"
  "r,c2,,chain,,,08,b509,0d10;0d11,l,,ULG,,,,m,,HEX:4,,,\n"
  "w,c2,b,wlist,,,08,b509,0e20,v,,UCH,0=a;1=b,,\n"
  "r,c2,,flt,,,08,b509,0d21,f,,FLT,,,,e,,EXP,,,,p,,PIN,,,\n"
  "uw,c2,,bc,,,fe,b505,27,v,,D1C,,,\n"
  "r,scan.08,,id,,,08,0704,,mf,,UCH,,,,idn,,STR:5,,,,sw,,PIN,,,,hw,,PIN,,,\n"
  "*[seen],c1,,temp,,,,\n"                                   // conditions resolved at load time refer to message objects
  "*[auto],c2,,state,,st,,2\n"
  "[seen]r,c1,,ctemp,,,08,b509,0d30,v,,UCH,,,\n"
  "[auto]w,c2,,cset,,,08,b509,0e31,v,,UCH,,,\n";

static std::string g_cfgDir;
extern "C" int LLVMFuzzerInitialize(int* argc, char*** argv) {
  g_cfgDir = tmpDir() + "/cfg";
  if (system(("mkdir -p '" + g_cfgDir + "'").c_str())) {}
  writeFile(g_cfgDir + "/world.csv", DEFS);
  writeFile(g_cfgDir + "/_templates.csv", "#\ntemp,D2C,,°C,temperature\n");
  atexit([]() { if (system(("rm -rf '" + g_tmpDir + "'").c_str())) {} });
  setFacilitiesLogLevel(-1, ll_none);
  setLogFile("/dev/null");
  vbus::g.virtualTime = false;
  fz::startWatchdog();
  return 0;
}

extern "C" int LLVMFuzzerTestOneInput(const uint8_t* data, size_t size) {
  if (size < 1 || size > 2048) return 0;
  fz::UnitScope scope;
  vbus::g.virtualTime = true;
  vbus::g.now = 1700000000LL * 1000000000LL;
  {
    WorldOptions wo;
    wo.configPath = g_cfgDir;
    wo.accessLevel = "a";
    wo.enableHex = true; wo.enableDefine = true;
    wo.htmlPath = "/nonexistent-html-root";
    World d(wo);
    if (d.loadResult != RESULT_OK) fz::violation("c20-fixed-definitions-rejected", std::string(getResultCode(d.loadResult)) + " " + d.loadError);
    uint64_t h = vf::fnv(data, size);
    d.proto->answer = [h](const std::vector<uint8_t>& mb) -> std::vector<uint8_t> {
      if (mb.size() >= 7 && mb[2] == 0xb5 && mb[3] == 0x09 && mb[5] == 0x0d && mb[6] == 0x7f) return {0x65};
      uint64_t x = vf::fnv(mb.data(), mb.size(), h);
      std::vector<uint8_t> a((size_t)(x % 17));
      for (auto& b : a) { x = x * 6364136223846793005ULL + 1442695040888963407ULL; b = (uint8_t)(x >> 33); }
      return a;
    };
    std::string text((const char*)data, size), user;
    RequestMode mode; memset(&mode, 0, sizeof(mode));
    bool hasDefine = false;
    size_t pos = 0; int lines = 0;
    while (pos <= text.size() && lines < 24) {
      size_t e = text.find('\n', pos);
      if (e == std::string::npos) e = text.size();
      std::string line = text.substr(pos, e - pos);
      pos = e + 1; lines++;
      if (line.find('\0') != std::string::npos) line.resize(line.find('\0'));
      if (line.empty()) continue;
      std::string lc = line; for (auto& c : lc) c = (char)tolower((unsigned char)c);
      if (lc.find("def") != std::string::npos) hasDefine = true;
      bool http = line.compare(0, 4, "GET ") == 0 || line.compare(0, 5, "POST ") == 0 || line.compare(0, 4, "PUT ") == 0;
      vbus::g.now += 1000000000LL;
      static const bool verbose = getenv("VERIF_FUZZ_VERBOSE") != nullptr;
      if (http) { std::string hu; RequestMode hm; memset(&hm, 0, sizeof(hm)); auto r = d.command(line, &hu, &hm, true); if (verbose) fprintf(stderr, "CMD %s -> %s\n", line.c_str(), vf::oneline(r.text).substr(0, 300).c_str()); }
      else { auto r = d.command(line, &user, &mode); if (verbose) fprintf(stderr, "CMD %s -> %s\n", line.c_str(), vf::oneline(r.text).substr(0, 300).c_str()); }
    }
    // probe on a new connection
    std::string pu; RequestMode pm; memset(&pm, 0, sizeof(pm));
    auto rep = d.command("read -f -c probe pm", &pu, &pm);
    if (!hasDefine && rep.text != "101") fz::violation("c20-probe-read-wrong", "'read -f -c probe pm' answered '" + rep.text + "' after the input");
  }
  vbus::g.virtualTime = false;
  return 0;
}
