// Virtual bus / virtual time under the real FileTransport -> Device -> DirectProtocolHandler stack.
// The real code is linked with -Wl,--wrap=time,clock_gettime,ppoll,read,write,close,pthread_cond_timedwait,usleep ;
// the __wrap_* functions (vbus.cpp) serve the simulated descriptor from this model and forward everything else.
#ifndef VERIF_VBUS_H_
#define VERIF_VBUS_H_

#include <cstdint>
#include <atomic>
#include <deque>
#include <functional>
#include <mutex>
#include <set>
#include <string>
#include <vector>
#include "lib/ebus/transport.h"

namespace vbus {

static const int64_t MS = 1000000LL;

struct RxByte { int64_t t; uint8_t b; };
struct TxRec { int64_t t; uint8_t b; };

struct Bus {
  std::recursive_mutex mtx;
  int64_t now = 1700000000LL * 1000000000LL;   // virtual wall clock in ns
  std::deque<RxByte> rx;                        // transport-level bytes on their way to the host, ordered by time
  std::vector<TxRec> txlog;                     // every byte the host wrote (transport level) with its time
  std::vector<RxByte> rxlog;                    // every byte handed to the host by read()
  int fd = -1;                                  // the simulated descriptor (a real fd on /dev/null)
  bool deviceValid = true;                      // checkDevice() verdict
  int openFailures = 0;                         // next n openInternal() calls fail
  // hooks of the harness
  std::function<void(const uint8_t*, size_t)> onWrite;     // called for every host write (after logging)
  std::function<size_t(size_t avail, size_t cap)> chunk;   // how many of the available bytes the next read returns
  std::function<void(int64_t horizon)> pump;               // may enqueue further rx bytes (at most up to the next event)
  std::function<void()> onIdle;                            // called when ppoll times out with nothing to deliver
  // fault plan: call indices (0-based, counted over the life of the Bus) at which the call fails
  long ppollCalls = 0, readCalls = 0, writeCalls = 0;
  std::set<long> failPpoll, failRead, zeroRead, failWrite, shortWrite;
  long faultsFired = 0;
  // which condition variable belongs to the bus thread's WaitThread (virtual sleep instead of real wait)
  const void* busWaitCond = nullptr;
  bool stopRequested = false;
  // rendezvous with client threads (C04): a registered client thread is flagged while it blocks in a condition wait
  std::atomic<bool> clientWaiting[64];
  std::atomic<long> clientWaits{0};
  std::atomic<int> clientState[64];             // 0 idle, 1 running ebusd code, 2 blocked in a condition wait
  bool holdTimeWhileClientsRun = false;         // deterministic mode: virtual time only advances while no client is running
  long idleRealSleepUs = 0;                     // real sleep per idle ppoll of the bus thread (stress mode: lets clients run)
  double realUsPerVirtualMs = 0;                // pacing: real microseconds slept per virtual millisecond that passes in ppoll
  double paceDebt = 0;
  // false: time()/clock_gettime()/usleep() are forwarded to the real ones (libFuzzer's own bookkeeping between units); not touched by reset()
  std::atomic<bool> virtualTime{true};

  void reset();
  void push(int64_t t, uint8_t b) { rx.push_back({t, b}); }
  int64_t lastRxTime() const { return rx.empty() ? now : rx.back().t; }
};

extern Bus g;
extern thread_local int t_clientIdx;      // >= 0 on registered client threads
void realSleepUs(long us);

/** FileTransport whose descriptor is served by the virtual bus. */
class SimTransport : public ebusd::FileTransport {
 public:
  SimTransport(const char* name, unsigned int extraLatency, bool checkDev = true)
    : FileTransport(name, extraLatency, checkDev) {}
  std::string getTransportInfo() const override { return "sim"; }
 protected:
  ebusd::result_t openInternal() override;
  void checkDevice() override;
};

}  // namespace vbus
#endif
