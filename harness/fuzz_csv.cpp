// libFuzzer target (C20): arbitrary CSV text into the template loader and the message loader, then every loaded message is
// dumped, encoded with default input, fed with input-derived data and decoded in several output formats; afterwards a fixed
// definition must still load and decode.
// input: [templates text] 0x01 [definitions text] 0x01 [raw data bytes]   (missing parts are empty)
#include "hcommon.h"
#include "fuzz_common.h"
#include "lib/ebus/message.h"
#include "lib/ebus/data.h"
#include "lib/utils/log.h"

using namespace ebusd;  // NOLINT

static DataFieldTemplates* g_templates = nullptr;
class FuzzResolver : public Resolver {
 public:
  DataFieldTemplates* getTemplates(const string& filename) override { return g_templates; }
  result_t loadDefinitionsFromConfigPath(FileReader* reader, const string& filename, map<string, string>* defaults,
      string* errorDescription, bool replace = false) override { return RESULT_ERR_NOTFOUND; }
};
static FuzzResolver g_resolver;

extern "C" int LLVMFuzzerInitialize(int* argc, char*** argv) {
  setFacilitiesLogLevel(-1, ll_none);
  fz::startWatchdog();
  return 0;
}

static void exercise(MessageMap* mm, const std::string& raw) {
  deque<Message*> msgs;
  mm->findAll("", "", "*", false, true, true, true, true, false, 0, 0, false, &msgs);
  int cnt = 0;
  for (Message* m : msgs) {
    if (++cnt > 40) break;
    std::ostringstream o;
    m->dump(nullptr, true, OF_NONE, &o);
    m->dump(nullptr, true, OF_NAMES | OF_UNITS | OF_COMMENTS | OF_ALL_ATTRS | OF_JSON | OF_DEFINITION, &o);
    for (size_t idx = 0; idx < m->getCount() && idx < 4; idx++) {
      MasterSymbolString master;
      std::istringstream in(idx == 0 ? raw.substr(0, raw.find('\n')) : std::string());
      result_t r = m->prepareMaster(idx, 0x31, m->getDstAddress() == SYN ? (symbol_t)0x08 : (symbol_t)SYN, UI_FIELD_SEPARATOR, &in, &master);
      if (r != RESULT_OK) { std::istringstream empty; master.clear(); r = m->prepareMaster(idx, 0x31, m->getDstAddress() == SYN ? (symbol_t)0x08 : (symbol_t)SYN, UI_FIELD_SEPARATOR, &empty, &master); }
      if (r != RESULT_OK) continue;
      SlaveSymbolString slave;
      size_t n = raw.empty() ? 0 : (size_t)((unsigned char)raw[0] % 17);
      slave.push_back((symbol_t)n);
      for (size_t k = 0; k < n; k++) slave.push_back((symbol_t)raw[(k + 1) % raw.size()]);
      m->storeLastData(master, slave);
      Message* found = mm->find(master);
      (void)found;
    }
    for (OutputFormat f : {OF_NONE, OF_NAMES | OF_UNITS | OF_COMMENTS, OF_JSON | OF_NAMES, OF_NUMERIC | OF_RAWDATA | OF_ALL_ATTRS, OF_JSON | OF_SHORT | OF_VALUENAME}) {
      std::ostringstream out;
      m->decodeLastData(pt_any, false, nullptr, -1, f, &out);
      std::ostringstream js;
      m->decodeJson(false, false, true, f | OF_JSON, &js);
    }
    std::ostringstream out2;
    m->decodeLastData(pt_slaveData, false, "v", 0, OF_NONE, &out2);
    m->isAvailable();
  }
  for (int i = 0; i < 5; i++) mm->getNextPoll();
  std::ostringstream all;
  mm->dump(true, OF_NONE, &all);
  std::ostringstream circ;
  mm->decodeCircuit("c", OF_JSON, &circ);
}

extern "C" int LLVMFuzzerTestOneInput(const uint8_t* data, size_t size) {
  if (size > 4096) return 0;
  fz::UnitScope scope;
  std::string all((const char*)data, size);
  std::string parts[3]; int pi = 0;
  for (char c : all) { if (c == 0x01 && pi < 2) { pi++; continue; } parts[pi] += c; }
  if (pi == 0) { parts[1] = parts[0]; parts[0].clear(); }     // a single part is definition text
  {
    DataFieldTemplates templates;
    g_templates = &templates;
    std::string err;
    { std::istringstream in(parts[0]); templates.readFromStream(&in, "fuzz/_templates.csv", 1, false, nullptr, &err); }
    std::ostringstream td; templates.dump(OF_NAMES | OF_JSON | OF_ALL_ATTRS, &td);
    MessageMap mm((size & 1) != 0, "", false);
    mm.setResolver(&g_resolver);
    { std::istringstream in(parts[1]); mm.readFromStream(&in, "fuzz/08.test.csv", 1, false, nullptr, &err); }
    mm.resolveConditions(false, &err);
    exercise(&mm, parts[2]);
    { std::istringstream in(parts[1]); mm.readFromStream(&in, "fuzz/08.test.csv", 2, false, nullptr, &err, true); }   // replace
    mm.clear();
  }
  // probe
  {
    DataFieldTemplates templates;
    g_templates = &templates;
    std::string err;
    std::istringstream tin("#\ntemp,D2C,,°C,temperature\n");
    if (templates.readFromStream(&tin, "p/_templates.csv", 1, false, nullptr, &err) != RESULT_OK) fz::violation("c20-probe-template-rejected", err);
    MessageMap mm(false, "", false);
    mm.setResolver(&g_resolver);
    std::istringstream in("#\nr,probe,pm,,,08,b509,0d7f,v,,UCH,,,,t,,temp\n");
    if (mm.readFromStream(&in, "p/08.p.csv", 1, false, nullptr, &err) != RESULT_OK) fz::violation("c20-probe-definition-rejected", err);
    Message* m = mm.find("probe", "pm", "*", false);
    if (!m) fz::violation("c20-probe-definition-rejected", "not found");
    MasterSymbolString master; std::istringstream e;
    if (m->prepareMaster(0, 0x31, SYN, UI_FIELD_SEPARATOR, &e, &master) != RESULT_OK) fz::violation("c20-probe-encode-wrong", "prepareMaster");
    if (master.getStr() != "3108b509020d7f") fz::violation("c20-probe-encode-wrong", master.getStr());
    SlaveSymbolString slave; slave.push_back(3); slave.push_back(0x65); slave.push_back(0x50); slave.push_back(0x01);
    m->storeLastData(master, slave);
    std::ostringstream out;
    m->decodeLastData(pt_any, false, nullptr, -1, OF_NONE, &out);
    if (out.str() != "101;21.00") fz::violation("c20-probe-decode-wrong", out.str());
  }
  g_templates = nullptr;
  return 0;
}
