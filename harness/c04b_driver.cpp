// C04 (part B): the request kinds the daemon itself creates - client reads through BusHandler::readFromBus (sendAndWait),
// PollRequest (self-deleting, restarting for chained messages) created on ps_empty, ScanRequest (scanAndWait: caller-owned,
// startScan: self-deleting, restarting per slave/message) - on the real threaded DirectProtocolHandler over the virtual bus,
// with read/write/poll faults, under ASan+UBSan and TSan.
//   c04b_driver seed=S n=N [verbose=1]
#include <config.h>
#include "bus_sim.h"
#include "ebusd/bushandler.h"
#include "ebusd/scan.h"
#include "ebusd/mqttclient.h"
#include <thread>

namespace ebusd { MqttClient* MqttClient::create(mqtt_client_config_t config, MqttClientListener* listener) { return nullptr; } }

using namespace bsim;
using namespace vf;
static Stats st;
static bool g_verbose = false;

static int64_t vnow() { std::lock_guard<std::recursive_mutex> l(g.mtx); return g.now; }

/** BusHandler that also lets the harness see what the protocol layer reports */
struct ObsBusHandler : public BusHandler {
  ObsBusHandler(MessageMap* m, ScanHelper* s, unsigned pi) : BusHandler(m, s, pi) {}
  std::atomic<long> sentReports{0}, emptyCalls{0};
  void notifyProtocolStatus(ProtocolState state, result_t result) override { if (state == ps_empty) emptyCalls++; BusHandler::notifyProtocolStatus(state, result); }
  void notifyProtocolMessage(MessageDirection direction, const MasterSymbolString& master, const SlaveSymbolString& slave) override {
    if (direction == md_send) sentReports++;
    BusHandler::notifyProtocolMessage(direction, master, slave);
  }
};

struct ClientResult { int msg; result_t res; std::string decoded; int64_t t; };

static bool runCase(Rng& r, long ci) {
  std::string tag = "case=" + std::to_string(ci);
  g.reset();
  g.now = 1700000000LL * 1000000000LL + (int64_t)r.below(1000) * MS;
  int64_t t0 = g.now;
  Bus bus;
  bool enhanced = r.chance(1, 3);
  bus.enhanced = enhanced;
  bus.rng = &r;
  bus.derivedResponses = true;
  bus.attach();
  bus.autoSyn = true;
  bus.gluePct = r.pick(std::vector<int>{0, 0, 30, 100});      // a SYN may arrive together with the symbols that follow it
  bus.echoGluePct = r.pick(std::vector<int>{0, 0, 50});
  if (bus.enhanced) bus.strayBeforeStartedPct = r.pick(std::vector<int>{0, 0, 25, 60});
  else { bus.strayAfterArbPct = r.pick(std::vector<int>{0, 0, 0, 30}); bus.dropArbWriteAt = r.chance(1, 5) ? (long)r.range(0, 3) : -1; }
  Item s; s.kind = Item::SYN;
  for (int i = 0; i < 4; i++) bus.script.push_back(s);
  // some foreign traffic competing for the bus
  for (int k = r.range(0, 12); k > 0; k--) {
    Item it; it.kind = Item::TELEGRAM; it.arbitrates = true;
    Telegram t; t.qq = MASTERS[r.below(25)]; if (t.qq == 0x31) t.qq = 0x10; t.zz = 0xFE; t.pb = 0xb5; t.sb = 0x16; t.data = {r.byte(), r.byte()};
    wireOf(t, false, false, false, false, &it.bytes, &it.origins);
    s.gap = (int64_t)r.range(5, 44) * MS; bus.script.push_back(s); bus.script.push_back(it);
  }
  // faults at random I/O call indices
  int nf = r.range(0, 4);
  for (int k = 0; k < nf; k++) {
    long at = r.range(20, 700);
    switch (r.range(0, 3)) { case 0: g.failRead.insert(at); break; case 1: g.failWrite.insert(at); break; case 2: g.zeroRead.insert(at); break; default: g.failPpoll.insert(at); }
  }
  // definitions: client messages (ids 1..nc*3), poll messages (ids 0x40..), a chained poll message, scan message default
  int nclients = r.range(1, 4), perClient = 3, npoll = r.range(1, 5);
  MessageMap messages(false, "", false);
  ScanHelper scan(&messages, "", "", "", "", nullptr, false);
  messages.setResolver(&scan);
  std::string csv = "#\n";
  char b[200];
  for (int i = 0; i < nclients * perClient; i++) { snprintf(b, sizeof(b), "r,cl,m%d,,,08,%02x%02x,%02x,a,,UCH,,,,b,,UCH,,,,c,,UCH\n", i, 0x41, 0x10 + i, 0x01 + i); csv += b; }
  for (int i = 0; i < npoll; i++) { snprintf(b, sizeof(b), "r%d,po,p%d,,,15,%02x%02x,%02x,a,,UCH,,,,b,,UCH,,,,c,,UCH\n", r.range(1, 9), i, 0x42, 0x10 + i, 0x81 + i); csv += b; }
  bool chained = r.chance(1, 2);
  if (chained) csv += "r2,po,ch,,,25,4330,c1:3;c2:3,x,,HEX:6\n";
  { std::istringstream in(csv); std::string err; result_t lr = messages.readFromStream(&in, "b.csv", 1, false, nullptr, &err);
    if (lr != RESULT_OK) { violation("c04b-definitions-rejected", err); return false; } }
  ObsBusHandler bh(&messages, &scan, 1);
  ebus_protocol_config_t pc;
  memset(&pc, 0, sizeof(pc));
  pc.device = "sim"; pc.noDeviceCheck = false; pc.ownAddress = 0x31; pc.busLostRetries = (unsigned)r.range(0, 3); pc.failedSendRetries = (unsigned)r.range(0, 2);
  pc.busAcquireTimeout = 10; pc.slaveRecvTimeout = 25; pc.lockCount = r.pick(std::vector<unsigned>{0, 3});
  auto* tr = new vbus::SimTransport("sim", 0, true);
  Device* dev = enhanced ? (Device*)new EnhancedDevice(tr) : (Device*)new PlainDevice(tr);
  SimHandler* handler = new SimHandler(pc, dev, &bh);
  bh.setProtocol(handler);
  g.busWaitCond = handler->waitCond();
  handler->open();
  g.idleRealSleepUs = 30; g.realUsPerVirtualMs = 0.5;
  std::vector<std::vector<ClientResult>> results((size_t)nclients);
  std::atomic<int> finished{0};
  std::vector<std::thread> threads;
  handler->start("bus");
  int rounds = r.range(2, 5);
  std::vector<Message*> clientMsgs;     // resolved before the threads start (lookups in the map are not what is under test)
  for (int i = 0; i < nclients * perClient; i++) clientMsgs.push_back(messages.find("cl", "m" + std::to_string(i), "*", false));
  for (int c = 0; c < nclients; c++) {
    uint64_t cs = r.next();
    threads.emplace_back([&, c, cs]() {
      vbus::t_clientIdx = c;
      Rng cr(cs);
      for (int k = 0; k < rounds * perClient; k++) {
        int mi = c * perClient + (int)cr.below((uint32_t)perClient);
        Message* m = clientMsgs[(size_t)mi];
        if (cr.chance(1, 3)) vbus::realSleepUs(cr.below(400));
        result_t res = bh.readFromBus(m, "");
        std::ostringstream out;
        if (res == RESULT_OK) m->decodeLastData(pt_slaveData, false, nullptr, -1, OF_NONE, &out);
        results[(size_t)c].push_back({mi, res, out.str(), vnow()});
      }
      finished++;
    });
  }
  // the scanning client
  std::atomic<int> scanDone{0};
  result_t scanRes = RESULT_EMPTY, startRes = RESULT_EMPTY;
  bool doScan = r.chance(2, 3), fullScan = r.chance(1, 2);
  if (doScan) threads.emplace_back([&]() {
    vbus::t_clientIdx = nclients;
    vbus::realSleepUs(300);
    scanRes = bh.scanAndWait(0x08, false);
    startRes = bh.startScan(fullScan, "*");
    scanDone = 1;
    finished++;
  });
  int need = nclients + (doScan ? 1 : 0);
  bool quiescent = false;
  for (int w = 0; w < 60000; w++) { if (finished == need) { quiescent = true; break; } vbus::realSleepUs(500); }
  // let polling and a started scan go on for a while (virtual seconds)
  if (quiescent) { int64_t until = vnow() + 4000 * MS; for (int w = 0; w < 40000 && (vnow() < until || bh.getRunningScans() > 0) && w < 40000; w++) vbus::realSleepUs(200); }
  int64_t endT = vnow();
  handler->stop();
  handler->join();
  if (!quiescent) {
    for (auto& t : threads) t.detach();
    if (endT - t0 > 300LL * 1000 * MS) violation("c04-request-lost", tag + " client threads still blocked after " + std::to_string((endT - t0) / MS) + " virtual ms");
    else { printf("I\tstall %s\n", tag.c_str()); st.n["inconclusive_stalls"]++; }
    _exit(0);       // threads may still reference the handler: end the process without destructors (statistics of this shard are lost)
  }
  for (auto& t : threads) t.join();
  st.n["evaluations"]++;
  st.n["bus_bytes"] += (long long)bus.log.size();
  st.n["faults_fired"] += g.faultsFired;
  st.n["poll_triggers"] += bh.emptyCalls.load();
  bool bad = false;
  auto report = [&](const std::string& key, const std::string& detail) { violation(key, tag + " enh=" + std::to_string(enhanced) + " clients=" + std::to_string(nclients) + ": " + detail); bad = true; };
  // reference: complete valid exchanges of the host on the wire, per master telegram
  std::vector<RefTelegram> ref;
  RefParser::parse(bus.log, &ref);
  std::map<std::string, int> onWire;
  for (auto& t : ref) if (!t.master.empty() && t.master[0] == 0x31) onWire[hex(t.master)]++;
  long okReads = 0;
  std::map<int, int> okPerMsg;
  for (int c = 0; c < nclients; c++) for (auto& cr2 : results[(size_t)c]) {
    st.hist["read_results"][std::to_string(cr2.res)]++;
    if (cr2.res != RESULT_OK) continue;
    okReads++; okPerMsg[cr2.msg]++;
    std::string exp = std::to_string(0x41) + ";" + std::to_string(0x10 + cr2.msg) + ";" + std::to_string(0x01 + cr2.msg);
    if (cr2.decoded != exp) report("c04-result-of-another-request", "readFromBus(m" + std::to_string(cr2.msg) + ") returned OK with data '" + cr2.decoded + "' expected '" + exp + "'");
  }
  for (auto& kv : okPerMsg) {
    char mh[64]; snprintf(mh, sizeof(mh), "310841%02x01%02x", 0x10 + kv.first, 0x01 + kv.first);
    if (onWire[mh] < kv.second) report("c04-success-without-exchange", "m" + std::to_string(kv.first) + ": " + std::to_string(kv.second) + " successful reads but " + std::to_string(onWire[mh]) + " valid exchanges " + mh + " on the wire");
  }
  // poll messages: whatever was stored is the answer to their own telegram
  long polled = 0;
  for (int i = 0; i < npoll; i++) {
    Message* m = messages.find("po", "p" + std::to_string(i), "*", false);
    if (!m || m->getLastUpdateTime() == 0) continue;
    polled++;
    std::ostringstream out; m->decodeLastData(pt_slaveData, false, nullptr, -1, OF_NONE, &out);
    std::string exp = std::to_string(0x42) + ";" + std::to_string(0x10 + i) + ";" + std::to_string(0x81 + i);
    if (out.str() != exp) report("c04-result-of-another-request", "poll message p" + std::to_string(i) + " holds '" + out.str() + "' expected '" + exp + "'");
    char mh[64]; snprintf(mh, sizeof(mh), "311542%02x01%02x", 0x10 + i, 0x81 + i);
    if (onWire[mh] < 1) report("c04-success-without-exchange", "poll message p" + std::to_string(i) + " was updated without a valid exchange on the wire");
  }
  if (chained) {
    Message* m = messages.find("po", "ch", "*", false);
    if (m && m->getLastUpdateTime() != 0) {
      st.n["chained_polls_completed"]++;
      std::ostringstream out; m->decodeLastData(pt_slaveData, false, nullptr, -1, OF_NONE, &out);
      if (out.str() != "4330c14330c2" && out.str() != "43 30 c1 43 30 c2") report("c04-result-of-another-request", "chained poll message holds '" + out.str() + "'");
    }
  }
  st.n["polled_messages"] += polled;
  st.n["ok_reads"] += okReads;
  if (doScan) { st.hist["scan_results"][std::to_string(scanRes) + "/" + std::to_string(startRes)]++; if (bh.getRunningScans() > 0 && endT - t0 > 0) st.n["scans_still_running_at_end"]++; }
  if (okReads > 0 && polled > 0) st.n["distinct_nontrivial"]++;
  long sent = bh.sentReports.load();
  long wireTotal = 0; for (auto& kv : onWire) wireTotal += kv.second;
  if (sent > wireTotal) report("c04-completed-twice", std::to_string(sent) + " sent-message reports for " + std::to_string(wireTotal) + " valid own exchanges on the wire");
  if (g_verbose) { printf("CASE %s reads ok=%ld polled=%ld sent=%ld wire=%ld scan=%d/%d faults=%ld t=%lld ms\n", tag.c_str(), okReads, polled, sent, wireTotal, scanRes, startRes, g.faultsFired, (long long)((endT - t0) / MS)); }
  // nothing may be left in the finished queue: waited requests were collected by their waiters, the others delete themselves
  if (bh.getRunningScans() == 0) {
    auto left = handler->drainFinished();
    if (!left.empty()) report("c04-finished-request-never-collected", std::to_string(left.size()) + " request(s) left in the finished queue after all clients returned and all scans ended, first master " + left[0]->getMaster().getStr());
    for (auto* q : left) delete q;
  }
  delete handler;   // frees what is still queued (self-deleting requests); LeakSanitizer sees what is left
  g.busWaitCond = nullptr;
  return !bad;
}

int main(int argc, char** argv) {
  Args a(argc, argv);
  installDeathCallback();
  setFacilitiesLogLevel(-1, ll_none);
  g_verbose = a.num("verbose", 0) != 0;
  uint64_t seed = (uint64_t)a.num("seed", 1);
  long n = (long)a.num("n", 20), only = (long)a.num("only", -1);
  for (long ci = 0; ci < n; ci++) {
    if (only >= 0 && ci != only) continue;
    Rng r(seed * 1000003ULL + (uint64_t)ci + 4242);
    current("c04b case " + std::to_string(ci));
    runCase(r, ci);
  }
  st.emit();
  return 0;
}
