// Bus simulator + independent monitors for the protocol level checks (C01 C02 C03 C15, also C04/C20).
// Everything in here is written from the eBUS specification / the property statements, not from protocol_direct.cpp.
#ifndef VERIF_BUS_SIM_H_
#define VERIF_BUS_SIM_H_

#include "hcommon.h"
#include "vbus.h"
#include "lib/ebus/device_trans.h"
#include "lib/ebus/protocol_direct.h"
#include "lib/ebus/symbol.h"
#include "lib/utils/log.h"
#include <algorithm>
#include <memory>

namespace bsim {

using namespace ebusd;
using vbus::g;
using vbus::MS;

static const int64_t SYM = 4200000LL;   // duration of one symbol on the wire (2400 Bd) in ns

// ---- spec helpers (independent of symbol.cpp) ----------------------------------------------------------------------
inline bool specIsMaster(uint8_t a) {
  auto ok = [](uint8_t n) { return n == 0 || n == 1 || n == 3 || n == 7 || n == 0xF; };
  return ok(a & 0xF) && ok(a >> 4);
}
/** master number 1..25 per the eBUS address table: priority class (low nibble) is the major, sub address (high nibble) the minor order */
inline int specMasterNumber(uint8_t a) {
  auto idx = [](uint8_t n) { return n == 0 ? 0 : n == 1 ? 1 : n == 3 ? 2 : n == 7 ? 3 : n == 0xF ? 4 : -1; };
  int lo = idx(a & 0xF), hi = idx(a >> 4);
  return lo < 0 || hi < 0 ? 0 : 5 * lo + hi + 1;
}
inline uint8_t specCrcStep(uint8_t data, uint8_t crc) {
  for (int i = 0; i < 8; i++) {
    uint8_t poly = (crc & 0x80) ? 0x9B : 0;
    crc = (uint8_t)((crc & 0x7f) << 1);
    if (data & 0x80) crc |= 1;
    crc ^= poly;
    data = (uint8_t)(data << 1);
  }
  return crc;
}
inline void specEscape(uint8_t b, std::vector<uint8_t>* out) {
  if (b == 0xA9) { out->push_back(0xA9); out->push_back(0x00); }
  else if (b == 0xAA) { out->push_back(0xA9); out->push_back(0x01); }
  else out->push_back(b);
}
/** escaped wire bytes of a part (unescaped bytes) followed by its (escaped) CRC; crcXor != 0 corrupts the CRC */
inline std::vector<uint8_t> specWire(const std::vector<uint8_t>& part, uint8_t crcXor = 0) {
  std::vector<uint8_t> w;
  for (uint8_t b : part) specEscape(b, &w);
  uint8_t crc = 0;
  for (uint8_t b : w) crc = specCrcStep(b, crc);
  specEscape((uint8_t)(crc ^ crcXor), &w);
  return w;
}

// ---- what appeared on the wire ----------------------------------------------------------------------------------
struct BusByte {
  int64_t t; uint8_t b;
  char origin;    // 'H' host (ebusd), 'F' foreign master, 'S' foreign slave, 'Y' sync generator, 'N' noise, 'X' collision host+foreign
  bool gapBefore; // a silent gap longer than any receive timeout preceded this byte
  uint8_t hostWrote;  // for 'X': what the host had written
};
/** a symbol the host wrote that never made it onto the wire (swallowed by a collision or the adapter): no echo, nothing for the others */
struct DroppedWrite { size_t pos; int64_t t; uint8_t b; };

// ---- reference wire parser: the list of valid telegrams in a bus byte sequence --------------------------------------
struct RefTelegram {
  std::vector<uint8_t> master;   // QQ ZZ PB SB NN data (unescaped)
  std::vector<uint8_t> slave;    // NN data (unescaped), empty for broadcast / master-master
  size_t startIdx, endIdx;       // index of QQ of the (final) attempt's first byte / of the last byte (CRC or ACK) in the bus log
  size_t firstIdx;               // index of the very first QQ (first attempt)
};

class RefParser {
 public:
  /** parse log[from..); valid telegrams are appended to out */
  static void parse(const std::vector<BusByte>& log, std::vector<RefTelegram>* out) {
    size_t i = 0;
    const size_t n = log.size();
    while (i < n) {
      // find a SYN
      if (log[i].b != 0xAA) { i++; continue; }
      while (i < n && log[i].b == 0xAA) i++;
      if (i >= n) break;
      if (log[i].gapBefore) continue;      // slot expired: whatever follows is not a telegram start
      RefTelegram t;
      size_t next = i;
      if (parseTelegram(log, i, &t, &next)) out->push_back(t);
      i = next > i ? next : i + 1;
    }
  }

 private:
  // reads one unescaped symbol starting at *pos; returns 0 ok, 1 SYN met (not consumed), 2 invalid escape/timeout/end
  static int readSym(const std::vector<BusByte>& log, size_t* pos, uint8_t* crc, uint8_t* out, bool first = false) {
    if (*pos >= log.size()) return 2;
    if (!first && log[*pos].gapBefore) return 2;
    uint8_t b = log[*pos].b;
    if (b == 0xAA) return 1;
    (*pos)++;
    if (crc) *crc = specCrcStep(b, *crc);
    if (b == 0xA9) {
      if (*pos >= log.size() || log[*pos].gapBefore) return 2;
      uint8_t e = log[*pos].b;
      if (e == 0xAA) return 1;
      (*pos)++;
      if (crc) *crc = specCrcStep(e, *crc);
      if (e == 0x00) *out = 0xA9; else if (e == 0x01) *out = 0xAA; else return 2;
      return 0;
    }
    *out = b;
    return 0;
  }
  // a part (master: with 4 header bytes before NN; slave: NN first); returns 0 ok (crc good), 3 ok but crc bad, else fail code
  static int readPart(const std::vector<BusByte>& log, size_t* pos, bool master, std::vector<uint8_t>* part, bool first) {
    uint8_t crc = 0, v;
    part->clear();
    size_t head = master ? 4 : 0;
    for (size_t k = 0; k <= head; k++) {
      int r = readSym(log, pos, &crc, &v, first && k == 0);
      if (r) return r;
      if (master && k == 0 && (!specIsMaster(v) || escapedAt(log, *pos))) return 2;     // QQ must be a plain master address
      if (master && k == 1 && (v == 0xA9 || v == 0xAA || v == (*part)[0])) return 2;     // ZZ valid and not the source itself
      part->push_back(v);
    }
    size_t nn = part->back();
    for (size_t k = 0; k < nn; k++) {
      int r = readSym(log, pos, &crc, &v);
      if (r) return r;
      part->push_back(v);
    }
    uint8_t want = crc;
    int r = readSym(log, pos, nullptr, &v);
    if (r) return r;
    return v == want ? 0 : 3;
  }
  static bool escapedAt(const std::vector<BusByte>& log, size_t posAfter) {
    // true if the symbol that ended right before posAfter was an escape pair
    return posAfter >= 2 && log[posAfter - 2].b == 0xA9 && (log[posAfter - 1].b <= 0x01);
  }
  static bool parseTelegram(const std::vector<BusByte>& log, size_t start, RefTelegram* t, size_t* next) {
    size_t pos = start;
    t->firstIdx = start;
    // master part, optionally NAK-ed once and repeated
    for (int attempt = 0; attempt < 2; attempt++) {
      t->startIdx = pos;
      int r = readPart(log, &pos, true, &t->master, attempt == 0);
      *next = pos;
      if (r != 0 && r != 3) return false;
      bool crcOk = r == 0;
      if (t->master[1] == 0xFE) {        // broadcast: no acknowledge
        if (!crcOk) return false;
        t->endIdx = pos - 1;
        t->slave.clear();
        return true;
      }
      uint8_t ack;
      if (pos >= log.size() || log[pos].gapBefore) return false;
      ack = log[pos].b;
      if (ack == 0xAA) return false;
      pos++;
      *next = pos;
      if (ack == 0x00) {
        if (!crcOk) return false;        // acknowledged although the CRC was wrong: not a valid telegram
        break;
      }
      if (ack != 0xFF) return false;     // neither ACK nor NAK
      if (attempt == 1) return false;    // second NAK
      // NAK: one repetition follows immediately
    }
    if (specIsMaster(t->master[1])) {    // master-master: complete with the ACK
      t->endIdx = pos - 1;
      t->slave.clear();
      return true;
    }
    for (int attempt = 0; attempt < 2; attempt++) {
      int r = readPart(log, &pos, false, &t->slave, false);
      *next = pos;
      if (r != 0 && r != 3) return false;
      bool crcOk = r == 0;
      if (pos >= log.size() || log[pos].gapBefore) return false;
      uint8_t ack = log[pos].b;
      if (ack == 0xAA) return false;
      pos++;
      *next = pos;
      if (ack == 0x00) {
        if (!crcOk) return false;
        t->endIdx = pos - 1;
        return true;
      }
      if (ack != 0xFF) return false;
      if (attempt == 1) return false;
    }
    return false;
  }
};

// ---- recording listener and handler subclass ------------------------------------------------------------------------
struct Reported {
  MessageDirection dir; std::vector<uint8_t> master, slave; size_t symbolsProcessed; int64_t t;
};
static std::vector<uint8_t> bytesOf(const SymbolString& s) {
  std::vector<uint8_t> v;
  for (size_t i = 0; i < s.size(); i++) v.push_back(s[i]);
  return v;
}

class SimHandler;
struct RecListener : public ProtocolListener {
  std::vector<Reported> msgs;
  std::vector<std::pair<ProtocolState, result_t>> states;
  std::vector<uint8_t> seen;
  size_t* symbolCounter = nullptr;
  std::function<void()> onEmpty;      // called on ps_empty (queue empty): harness may add requests like BusHandler does
  void notifyProtocolStatus(ProtocolState state, result_t result) override {
    states.push_back({state, result});
    if (state == ps_empty && onEmpty) onEmpty();
  }
  void notifyProtocolSeenAddress(symbol_t address) override { seen.push_back(address); }
  void notifyProtocolMessage(MessageDirection direction, const MasterSymbolString& master, const SlaveSymbolString& slave) override {
    msgs.push_back({direction, bytesOf(master), bytesOf(slave), symbolCounter ? *symbolCounter : 0, g.now});
  }
};

class SimHandler : public DirectProtocolHandler {
 public:
  SimHandler(const ebus_protocol_config_t config, Device* device, ProtocolListener* listener)
    : DirectProtocolHandler(config, device, listener) {}
  size_t rxSymbols = 0, txSymbols = 0;
  void notifyDeviceData(const symbol_t* data, size_t len, bool received) override {
    if (received) rxSymbols += len; else txSymbols += len;
    DirectProtocolHandler::notifyDeviceData(data, len, received);
  }
  void notifyDeviceStatus(bool error, const char* message) override { diag.push_back(message); }
  std::vector<std::string> diag;
  bool takeFinished(BusRequest* r) { return m_finishedRequests.remove(r); }
  /** requests left in the finished queue (nobody will ever collect them): removed and returned */
  std::vector<BusRequest*> drainFinished() { std::vector<BusRequest*> v; while (BusRequest* r = m_finishedRequests.pop()) v.push_back(r); return v; }
  const void* waitCond() { return &m_cond; }
  // not started as a thread: run() executes exactly one loop iteration, because isRunning() is false at the loop condition.
  // With steppedReopen the iteration that finds the device invalid may pass its Wait() (two isRunning() calls inside
  // WaitThread::Wait) and re-open the device, as the started thread would.
  bool steppedReopen = false;
  int runningCalls = 0;
  bool reopenPath = false;
  bool isRunning() override {
    if (!steppedReopen) return DirectProtocolHandler::isRunning();
    if (!reopenPath) return false;
    return ++runningCalls <= 2;
  }
  void step() {
    if (steppedReopen) { runningCalls = 0; reopenPath = !m_device->isValid() || m_reconnect; }
    run();
  }
};

/** an observable request */
struct ObsRequest : public BusRequest {
  ObsRequest(const MasterSymbolString& m, bool del = false) : BusRequest(m_copy, del), m_copy(m) {}
  MasterSymbolString m_copy;
  int notifications = 0;
  result_t result = RESULT_EMPTY;
  std::vector<uint8_t> slave;
  int64_t doneAt = 0;
  int restarts = 0;    // how often notify shall ask for a restart
  bool notify(result_t r, const SlaveSymbolString& s) override {
    notifications++;
    result = r;
    slave = bytesOf(s);
    doneAt = g.now;
    if (restarts > 0) { restarts--; return true; }
    return false;
  }
};

// ---- the bus --------------------------------------------------------------------------------------------------------
/** behaviour of the addressed participant for one exchange initiated by the host */
struct PeerScript {
  // after the master part (per attempt): 0 ACK, 1 NAK, 2 other symbol, 3 silence, 4 SYN
  int cmdAck[2] = {0, 0};
  uint8_t otherSym = 0x55;
  // response attempts (slave destination): bytes incl NN and data; crcXor != 0 -> bad crc; cut = send only that many wire bytes then silence
  std::vector<uint8_t> resp;
  uint8_t respCrcXor[2] = {0, 0};
  int respCut[2] = {-1, -1};
  bool respAltSecond = false;     // second attempt carries different data
};

/** a scripted foreign item */
struct Item {
  enum Kind { SYN, BYTES, GAP, TELEGRAM } kind = SYN;
  std::vector<uint8_t> bytes;      // wire bytes for BYTES / TELEGRAM (complete wire sequence incl. acks etc.)
  std::vector<char> origins;       // per wire byte origin for TELEGRAM ('F' master, 'S' slave)
  int64_t gap = 0;                 // GAP: duration; otherwise gap before the first byte
  std::vector<int64_t> gaps;       // optional per byte extra gaps (silent, longer than timeouts) inside BYTES/TELEGRAM
  bool arbitrates = false;         // TELEGRAM: the first byte (QQ) takes part in arbitration after the preceding SYN
  // TELEGRAM addressed to the host (answer mode): wire bytes only hold the master part; the rest is reactive
  bool expectAnswer = false;
  int answerReaction[2] = {0, 0};  // reaction of the foreign master to the host's response: 0 ACK 1 NAK 2 other 3 silence
  std::vector<uint8_t> repeatBytes; // master part sent again (once) when the host answers with NAK
  bool waitHostSyn = false;        // BYTES/TELEGRAM: starts right after the next SYN the host itself generates (host is the SYN generator)
};

class Bus {
 public:
  std::vector<BusByte> log;             // everything on the wire, in order
  std::deque<Item> script;
  bool enhanced = false;
  bool autoSyn = true;                  // the bus has a SYN generator: SYN after 45 ms of silence while the script is idle
  long autoSynBudget = 1000000;         // stop generating after that many (end of a scenario)
  int64_t lastByteTime = 0;             // nominal time of the last scheduled bus byte
  int64_t nextAutoSynAfter = 45 * MS;
  int burst = 1;                        // how many foreign bytes are delivered at once (passive scenarios only)
  vf::Rng* rng = nullptr;
  // host transmit tracking
  bool hostArbPending = false;          // plain: host wrote its address right after the last SYN and the echo is still queued
  size_t hostArbLogIdx = 0;
  uint8_t enhArbAddr = 0xAA;            // enhanced: address the adapter shall arbitrate with at the next SYN
  std::vector<uint8_t> enhPartial;      // enhanced: incomplete request frame from the host
  long echoCorruptAt = -1;              // corrupt the echo of the n-th host byte (0-based, counted over the run)
  uint8_t echoCorruptXor = 0x04;
  long hostBytes = 0;
  std::deque<PeerScript> peers;         // behaviour for successive host initiated exchanges
  bool derivedResponses = false;        // default peers answer with data derived from the request (C04)
  bool respBurst = false;               // responses of the addressed participant reach the host in one read
  // reactive state for host-initiated exchanges
  struct Track { int phase = 0; std::vector<uint8_t> wire; uint8_t crc = 0; bool esc = false; std::vector<uint8_t> part; int attempt = 0; bool crcOk = false;
                 int respAttempt = 0; } tr;
  bool hostOwnsBus = false;             // the host won arbitration and is transmitting its telegram
  PeerScript curPeer;
  bool havePeer = false;
  // answer mode: the foreign master waits for the host's reaction
  bool awaitHostAnswer = false;
  Item answerItem;
  int answerAttempt = 0;
  int64_t answerDeadline = 0;
  std::vector<uint8_t> hostAnswerWire;
  long scriptedConsumed = 0;
  bool scriptDone() const { return script.empty() && !awaitHostAnswer && (!autoSyn || autoSynBudget <= 0); }

  void attach() {
    g.onWrite = [this](const uint8_t* b, size_t n) { hostWrite(b, n); };
    g.pump = [this](int64_t horizon) { pump(horizon); };
    lastByteTime = g.now;
  }

  // ---- scheduling -------------------------------------------------------------------------------------------------
  void emit(int64_t t, uint8_t b, char origin, bool gapBefore = false, uint8_t hostWrote = 0) {
    if (t < lastByteTime) t = lastByteTime;
    // a byte is "after a gap" iff the wire was silent for longer than any receive timeout (the generator never produces
    // silences between 10 ms and 100 ms, so 50 ms separates the two classes)
    gapBefore = !log.empty() && (t - log.back().t) > 50 * MS;
    log.push_back({t, b, origin, gapBefore, hostWrote});
    lastByteTime = t;
    deliver(t, b, origin);
    trackBus(b, origin);
  }
  void deliver(int64_t t, uint8_t b, char origin) {
    if (!enhanced) { g.push(t, b); return; }
    // adapter: short form for values < 0x80 (randomly the long form), RECEIVED frame otherwise
    if (b < 0x80 && !(rng && rng->chance(1, 4))) { g.push(t, b); return; }
    g.push(t, (uint8_t)(0xc0 | (1 << 2) | (b >> 6)));
    g.push(t, (uint8_t)(0x80 | (b & 0x3f)));
  }
  void enhFrame(int64_t t, uint8_t cmd, uint8_t d) {
    g.push(t, (uint8_t)(0xc0 | (cmd << 2) | (d >> 6)));
    g.push(t, (uint8_t)(0x80 | (d & 0x3f)));
  }

  void hostWrite(const uint8_t* buf, size_t n) {
    if (!enhanced) { for (size_t i = 0; i < n; i++) hostBusByte(buf[i]); return; }
    for (size_t i = 0; i < n; i++) {
      uint8_t b = buf[i];
      if (enhPartial.empty()) {
        if (b < 0x80) { hostBusByte(b); continue; }
        if ((b & 0xc0) == 0xc0) enhPartial.push_back(b);
        continue;
      }
      uint8_t f = enhPartial[0];
      enhPartial.clear();
      if ((b & 0xc0) != 0x80) continue;
      uint8_t cmd = (f >> 2) & 0xf, d = (uint8_t)(((f & 3) << 6) | (b & 0x3f));
      if (cmd == 0) enhFrame(g.now, 0, 0x01);                    // INIT -> RESETTED with info feature
      else if (cmd == 1) hostBusByte(d);                         // SEND
      else if (cmd == 2) { if (!(d == 0xAA && enhArbPending)) enhArbAddr = d; }   // START (SYN cancels, unless the SYN the adapter
                                                                                 // waited for has passed: the address is on its way then)
      else if (cmd == 3) { enhFrame(g.now, 3, 2); enhFrame(g.now, 3, 0x23); enhFrame(g.now, 3, 0x01); }   // INFO: 2 bytes
    }
  }

  /** the host puts a byte on the wire now */
  void hostBusByte(uint8_t b) {
    long idx = hostBytes++;
    uint8_t echo = b;
    if (idx == echoCorruptAt) echo ^= echoCorruptXor;
    bool afterSyn = !log.empty() && log.back().b == 0xAA;
    int64_t t = std::max(g.now, lastByteTime) + SYM;
    if (!enhanced && afterSyn && !hostOwnsBus && !awaitHostAnswer && b != 0xAA) {
      if (arbWrites++ == dropArbWriteAt) {
        // the address is swallowed: nothing on the wire, no echo; what the host gets to see next is the SYN of the generator, within its
        // wait for the echo
        dropped.push_back({log.size(), t, b});
        emitSyn(t, false, 0);
        return;
      }
      // arbitration attempt: the echo is resolved together with a possibly colliding foreign master in pump()
      hostArbPending = true;
      log.push_back({t, echo, 'H', false, b});
      hostArbLogIdx = log.size() - 1;
      lastByteTime = t;
      g.push(t, echo);
      trackBus(echo, 'H');
      return;
    }
    size_t rx0 = g.rx.size();
    emit(t, echo, 'H', false, b);
    if (b == 0xAA && echo == 0xAA) {
      // a SYN generated by the host ends whatever was going on, like the SYN of any other generator
      hostOwnsBus = false;
      tr = Track();
      if (enhanced && enhArbAddr != 0xAA) enhArbPending = true;
      // its echo may be handed over together with the first symbol of a telegram that starts right after it (one symbol only:
      // the echo has to be back within the host's send timeout)
      else if (gluePct > 0 && rng && (int)rng->below(100) < gluePct) glueFollowing(rx0, INT64_MAX, 1);
    }
  }

  /** called from ppoll: schedule the next foreign byte(s) when nothing is on its way */
  void pump(int64_t horizon) {
    // 1. a pending arbitration byte of the host: collides with a foreign master that starts in this slot, or stands alone
    if (hostArbPending || enhArbPending) {
      bool foreignStarts = !script.empty() && script.front().kind == Item::TELEGRAM && script.front().arbitrates && itemPos == 0 &&
                           script.front().gap == 0 && !script.front().bytes.empty();
      if (foreignStarts) {
        Item& it = script.front();
        resolveArbitration(it.bytes[0], std::max(lastByteTime, g.now) + SYM);
        itemPos++;
        if (itemPos >= it.bytes.size()) { script.pop_front(); itemPos = 0; }
        foreignLostArb = false;
      } else {
        settleHostArb();
      }
      return;
    }
    if (!g.rx.empty()) return;
    if (awaitHostAnswer) {
      if (g.now >= answerDeadline) finishAnswer(true);
      else return;      // the host has until the deadline to react
    }
    // 2. the host transmits its own telegram: the script waits; only the sync generator watches for silence
    if (hostOwnsBus) {
      if (autoSyn && lastByteTime + nextAutoSynAfter <= horizon) emitSyn(std::max(lastByteTime + nextAutoSynAfter, g.now), false, horizon);
      return;
    }
    int n = 1;
    if (burst > 1 && rng) n = 1 + (int)rng->below((uint32_t)burst);
    size_t rxBefore = g.rx.size();
    int taken = 0;
    while (n-- > 0) {
      if (script.empty()) {
        if (taken) break;
        if (autoSyn && autoSynBudget > 0 && lastByteTime + nextAutoSynAfter <= horizon) {
          autoSynBudget--;
          emitSyn(std::max(lastByteTime + nextAutoSynAfter, g.now));
        }
        break;
      }
      Item& it = script.front();
      // an arrival burst never spans a silent gap (that would hide the gap from the host)
      if (taken && (it.kind == Item::GAP || pendingGap || (it.kind != Item::SYN && itemPos == 0 && it.gap > 0)
          || (it.kind != Item::SYN && itemPos < it.gaps.size() && it.gaps[itemPos] > 0) || (it.kind == Item::SYN && it.gap > 10 * MS))) break;
      if (it.kind == Item::GAP) { taken++; scriptNotBefore = std::max(lastByteTime, g.now) + it.gap; script.pop_front(); pendingGap = true; continue; }
      if (it.kind != Item::SYN && it.bytes.empty()) { script.pop_front(); itemPos = 0; continue; }
      if (it.waitHostSyn && itemPos == 0) {
        // nothing is put on the wire until the host has generated a SYN (bounded: a host that never does is not waited for forever)
        bool afterHostSyn = !log.empty() && log.back().b == 0xAA && log.back().origin == 'H';
        if (!afterHostSyn) {
          if (waitHostSynSince == 0) waitHostSynSince = g.now;
          if (g.now - waitHostSynSince < 3000 * MS) break;
        }
        waitHostSynSince = 0;
        it.waitHostSyn = false;
      }
      // when is the next scripted byte due? fixed when it is first considered; nothing is put on the wire before its time has
      // come within the host's current wait (the host may act on a timeout first, e.g. generate a SYN)
      if (itemDue == 0) {
        int64_t base = std::max(std::max(lastByteTime, g.now), scriptNotBefore - SYM);
        if (it.kind == Item::SYN) itemDue = base + (it.gap ? it.gap : SYM);
        else itemDue = base + SYM + (itemPos < it.gaps.size() ? it.gaps[itemPos] : 0) + (itemPos == 0 ? it.gap : 0);
      }
      int64_t t = std::max(itemDue, lastByteTime + SYM);
      if (t > horizon) break;
      itemDue = 0; scriptNotBefore = 0;
      taken++;
      if (it.kind == Item::SYN) {
        script.pop_front();
        pendingGap = false;
        emitSyn(t, false, horizon);
        break;      // after a SYN the host may arbitrate: let it react before anything else is scheduled
      }
      size_t k = itemPos;
      uint8_t b = it.bytes[k];
      char org = it.kind == Item::TELEGRAM ? (k < it.origins.size() ? it.origins[k] : 'F') : 'N';
      pendingGap = false;
      emit(t, b, org);
      itemPos++;
      if (itemPos >= it.bytes.size()) {
        Item done = it;
        script.pop_front();
        itemPos = 0;
        if (done.kind == Item::TELEGRAM && done.expectAnswer) {
          awaitHostAnswer = true; answerItem = done; answerAttempt = 0; hostAnswerWire.clear();
          answerDeadline = lastByteTime + 40 * MS;
          break;
        }
      }
    }
    // burst delivery (adapter/USB latency): everything scheduled in this call arrives together with its last byte
    if (burst > 1) for (size_t i = rxBefore; i < g.rx.size(); i++) g.rx[i].t = g.rx.back().t;
  }

  bool pendingGap = false;
  int64_t waitHostSynSince = 0;
  size_t itemPos = 0;
  int64_t itemDue = 0;          // due time of the next scripted byte (0: not determined yet)
  int64_t scriptNotBefore = 0;  // end of a scripted silent gap
  bool enhArbPending = false;
  bool foreignLostArb = false;

  void emitSyn(int64_t t, bool gapB = false, int64_t horizon = INT64_MAX) {
    size_t rx0 = g.rx.size();
    emit(t, 0xAA, 'Y', gapB);
    hostOwnsBus = false;
    tr = Track();
    if (enhanced && enhArbAddr != 0xAA) {
      // the adapter writes the address right after the SYN; resolved against a foreign master in pump()/settle
      enhArbPending = true;     // resolved in pump(): against a foreign master starting in this slot, or alone
    }
    if (gluePct > 0 && (!enhanced || enhArbAddr == 0xAA) && rng && (int)rng->below(100) < gluePct) glueFollowing(rx0, horizon);
  }
  int echoGluePct = 0;
  long echoGlued = 0;
  int gluePct = 0;              // chance (percent) that a SYN reaches the host in one read together with the first symbols of the telegram
                                // another master starts right after it (serial/USB/network latency: the host cannot arbitrate; on the
                                // enhanced device only while the adapter has no arbitration request of the host)
  long glued = 0;
  void glueFollowing(size_t rx0, int64_t horizon, size_t maxK = 3) {
    if (itemPos != 0 || pendingGap || hostArbPending) return;
    // a scripted SYN that was due anyway is the one just seen
    if (script.size() >= 2 && script[0].kind == Item::SYN && script[0].gap < 45 * MS && script[1].kind != Item::SYN && script[1].kind != Item::GAP) script.pop_front();
    if (script.empty()) return;
    Item& it = script.front();
    if ((it.kind != Item::TELEGRAM && it.kind != Item::BYTES) || it.gap != 0 || it.bytes.size() < 2) return;
    if (it.waitHostSyn && !(log.back().origin == 'H')) return;
    it.waitHostSyn = false; waitHostSynSince = 0;
    size_t k = 1 + rng->below((uint32_t)maxK);
    if (k > it.bytes.size() - 1) k = it.bytes.size() - 1;
    for (size_t j = 0; j < k && j < it.gaps.size(); j++) if (it.gaps[j] > 0) return;
    if (lastByteTime + (int64_t)k * SYM > horizon) return;
    for (size_t j = 0; j < k; j++) {
      char org = it.kind == Item::TELEGRAM ? (j < it.origins.size() ? it.origins[j] : 'F') : 'N';
      emit(lastByteTime + SYM, it.bytes[j], org);
      itemPos++;
    }
    itemDue = 0; scriptNotBefore = 0;
    for (size_t i = rx0; i < g.rx.size(); i++) g.rx[i].t = g.rx.back().t;
    glued++;
  }

  /** nobody else arbitrated: the host's address echo stands as it is */
  void settleHostArb() {
    if (enhanced) {
      if (!enhArbPending) return;
      enhArbPending = false;
      uint8_t a = enhArbAddr;
      enhArbAddr = 0xAA;
      int64_t t = std::max(lastByteTime, g.now) + SYM;
      if (strayBeforeStartedPct > 0 && rng && (int)rng->below(100) < strayBeforeStartedPct) {
        // the adapter reports a disturbed symbol first and the won arbitration afterwards: the handler has left its ready state by then
        emit(t, rng->pick(std::vector<uint8_t>{0x55, 0x02, 0xA0, 0x9f}), 'N');
        t = lastByteTime + SYM;
        straysBeforeStarted++;
      }
      log.push_back({t, a, 'H', false, a});
      lastByteTime = t;
      hostBytes++;
      enhFrame(t, 2, a);      // STARTED
      trackBus(a, 'H');
      hostOwnsBus = true;
      beginHostExchange();
      return;
    }
    if (!hostArbPending) return;
    hostArbPending = false;
    BusByte& e = log[hostArbLogIdx];
    if (e.b == e.hostWrote) {
      hostOwnsBus = true; beginHostExchange();
      // noise right behind the address of the host (a symbol of somebody who does not follow the rules, or a SYN of the generator),
      // handed over in one read together with the echo of the address: the host has won, but must not continue into it
      if (strayAfterArbPct > 0 && rng && !g.rx.empty() && hostArbLogIdx + 1 == log.size() && (int)rng->below(100) < strayAfterArbPct) {
        size_t echoIdx = g.rx.size() - 1;
        int64_t t = lastByteTime + SYM;
        if (rng->chance(1, 3)) emitSyn(t, false, 0);      // (horizon 0: nothing further is grouped behind this SYN)
        else { emit(t, rng->pick(std::vector<uint8_t>{0x10, 0x00, 0xFF, 0x55, 0xA9, 0x03}), 'N'); tr.phase = 5; }   // (nobody answers a telegram damaged like that)
        // always in one read with the echo: handed over separately the host would have sent its next symbol in between, at the very
        // moment the stray symbol is on the wire - a collision this model does not resolve
        g.rx[echoIdx].t = g.rx.back().t;
        strays++;
      }
    }
  }
  long arbWrites = 0, dropArbWriteAt = -1;      // which arbitration write of the host (plain device) is swallowed
  std::vector<DroppedWrite> dropped;
  int strayBeforeStartedPct = 0;   // enhanced device (C04 only: no wire monitor): STARTED is preceded by a received non-master symbol
  long straysBeforeStarted = 0;
  int strayAfterArbPct = 0;
  long strays = 0;

  /** a foreign master writes its address in the same slot as the host */
  void resolveArbitration(uint8_t foreignQQ, int64_t t) {
    uint8_t hostQQ = enhanced ? enhArbAddr : log[hostArbLogIdx].hostWrote;
    uint8_t r = (uint8_t)(hostQQ & foreignQQ);   // wired AND: dominant zeros win
    if (enhanced) {
      enhArbPending = false;
      enhArbAddr = 0xAA;
      int64_t tt = std::max(lastByteTime, g.now) + SYM;
      log.push_back({tt, r, 'X', false, hostQQ});
      lastByteTime = tt;
      hostBytes++;
      if (r == hostQQ && r != foreignQQ) { enhFrame(tt, 2, hostQQ); hostOwnsBus = true; trackBus(r, 'H'); beginHostExchange(); dropForeign(); }
      else { enhFrame(tt, 0xa, r); trackBus(r, 'F'); if (r != foreignQQ) dropForeign(); }
      return;
    }
    hostArbPending = false;
    BusByte& e = log[hostArbLogIdx];
    e.b = r; e.origin = 'X';
    // the echo byte is still queued for the host: patch it
    if (!g.rx.empty()) g.rx.back().b = r;
    if (r == hostQQ && r != foreignQQ) { hostOwnsBus = true; beginHostExchange(); dropForeign(); }
    else if (r != foreignQQ) dropForeign();       // both lost
    // else the foreign master won: its remaining bytes follow; its QQ is the byte already on the wire
  }
  void dropForeign() { foreignLostArb = true; if (!script.empty()) itemPos = script.front().bytes.size() - 1; }   // the rest of the foreign telegram is not sent

  // ---- reactions to what the host transmits ------------------------------------------------------------------------
  void beginHostExchange() {
    tr = Track();
    tr.phase = 1;
    if (!peers.empty()) { curPeer = peers.front(); peers.pop_front(); havePeer = true; } else { curPeer = PeerScript(); havePeer = true; }
    // the arbitration byte (QQ) is the first byte of the master part
    uint8_t qq = log.back().b;
    tr.part.push_back(qq);
    tr.crc = specCrcStep(qq, 0);
  }

  /** follows the bytes on the wire to find the end of the host's master part / response acknowledge */
  void trackBus(uint8_t b, char origin) {
    if (awaitHostAnswer && origin == 'H') { hostAnswered(b); return; }
    if (!hostOwnsBus || origin != 'H') return;
    if (tr.phase == 1) {          // master part of the host
      if (tr.part.empty() && tr.wire.empty() && tr.attempt > 0) { /* repeated QQ */ }
      uint8_t v = b;
      if (tr.esc) { tr.esc = false; v = b == 0 ? 0xA9 : 0xAA; tr.crc = specCrcStep(b, tr.crc); }
      else if (b == 0xA9) { tr.esc = true; tr.crc = specCrcStep(b, tr.crc); return; }
      else if (b == 0xAA) { hostOwnsBus = false; return; }
      else if (!(tr.part.size() >= 5 && tr.part.size() == 5u + tr.part[4])) tr.crc = specCrcStep(b, tr.crc);
      if (tr.part.size() >= 5 && tr.part.size() == 5u + tr.part[4]) {
        // this is the CRC byte: master part complete
        masterPartDone();
        return;
      }
      tr.part.push_back(v);
      return;
    }
    if (tr.phase == 3) {          // host acknowledges the response
      if (b == 0x00) { tr.phase = 5; return; }
      if (b == 0xFF && tr.respAttempt == 0) {
        tr.respAttempt = 1;
        size_t echoIdx = g.rx.size();      // (the echo of the NAK is the last queued byte)
        sendResponse();
        // the echo of the NAK may be handed over in one read together with the first symbol of the repeated response (plain device; only
        // when that keeps the echo within the host's send timeout)
        if (echoGluePct > 0 && !enhanced && rng && echoIdx >= 1 && echoIdx < g.rx.size() && g.rx[echoIdx].t - g.rx[echoIdx - 1].t <= 5 * MS
            && (int)rng->below(100) < echoGluePct) { g.rx[echoIdx - 1].t = g.rx[echoIdx].t; echoGlued++; }
        return;
      }
      tr.phase = 5;
      return;
    }
  }

  void masterPartDone() {
    uint8_t zz = tr.part[1];
    if (zz == 0xFE) { tr.phase = 5; return; }
    int act = curPeer.cmdAck[std::min(tr.attempt, 1)];
    int64_t t = lastByteTime + SYM;
    // the echo of the host's last symbol and the reaction of the addressed participant may be handed over in one read (plain device; the echo
    // then is one symbol time late, which is within the host's send timeout)
    size_t echoIdx = g.rx.size();
    bool echoGlue = echoGluePct > 0 && !enhanced && rng && act <= 2 && !g.rx.empty() && (int)rng->below(100) < echoGluePct;
    auto glueEcho = [&]() { if (echoGlue && echoIdx >= 1 && echoIdx < g.rx.size()) { g.rx[echoIdx - 1].t = g.rx[echoIdx].t; echoGlued++; } };
    if (act == 0) {
      ackMark = g.rx.size();
      emitPeer(t, 0x00);
      glueEcho();
      if (specIsMaster(zz)) { tr.phase = 5; return; }
      tr.respAttempt = 0;
      sendResponse();
      ackMark = (size_t)-1;
    } else if (act == 1) {
      emitPeer(t, 0xFF);
      glueEcho();
      tr.attempt++;
      tr.part.clear(); tr.crc = 0; tr.esc = false; tr.phase = 1;
      // the repeated QQ is sent by the host and arrives through trackBus: start with an empty part
      repeatExpected = true;
    } else if (act == 2) {
      emitPeer(t, curPeer.otherSym);
      glueEcho();
      tr.phase = 5;
    } else if (act == 4) {
      emitSyn(t);
    } else {
      tr.phase = 5;   // silence
    }
  }
  bool repeatExpected = false;
  size_t ackMark = (size_t)-1;   // index in the delivery queue of the acknowledge that precedes a response
  void emitPeer(int64_t t, uint8_t b) {
    // bypass trackBus recursion for peer bytes
    if (t < lastByteTime) t = lastByteTime;
    log.push_back({t, b, 'S', false, 0});
    lastByteTime = t;
    deliver(t, b, 'S');
  }
  void sendResponse() {
    std::vector<uint8_t> part = curPeer.resp;
    if (part.empty() && derivedResponses && tr.part.size() >= 5) {
      // the response identifies the request it answers (cross-delivery becomes visible): NN=3, PB, SB, first data byte
      part = {3, tr.part[2], tr.part[3], (uint8_t)(tr.part.size() > 5 ? tr.part[5] : 0)};
    }
    if (part.empty()) part.push_back(0);
    if (tr.respAttempt == 1 && curPeer.respAltSecond && part.size() > 1) part.back() ^= 0x5a;
    std::vector<uint8_t> w = specWire(part, curPeer.respCrcXor[tr.respAttempt]);
    int cut = curPeer.respCut[tr.respAttempt];
    int64_t t = lastByteTime;
    size_t rxBefore = g.rx.size();
    for (size_t i = 0; i < w.size(); i++) {
      if (cut >= 0 && (int)i >= cut) break;
      t += SYM;
      emitPeer(t, w[i]);
    }
    // an adapter / USB / network hop may hand over the whole response in one piece: everything arrives with its last byte
    // (together with the acknowledge before it when that is still on its way)
    if (respBurst && !g.rx.empty()) {
      size_t from = ackMark <= rxBefore ? ackMark : rxBefore;     // the acknowledge emitted right before (never the echo of the host's own bytes)
      // in groups of 2..4 symbols: the added latency (< 17 ms) stays below the host's receive timeout
      size_t i = from;
      while (i < g.rx.size()) {
        int64_t t0 = g.rx[i].t;
        size_t j = i;
        int grp = 2 + (rng ? (int)rng->below(3) : 1);
        while (j + 1 < g.rx.size() && g.rx[j + 1].t - t0 < (int64_t)grp * SYM - SYM / 2) j++;
        for (size_t k = i; k <= j; k++) g.rx[k].t = g.rx[j].t;
        i = j + 1;
      }
    }
    tr.phase = 3;
  }

  // ---- answer mode: the host reacts to a foreign telegram ----------------------------------------------------------
  void hostAnswered(uint8_t b) {
    hostAnswerWire.push_back(b);
    answerDeadline = lastByteTime + 40 * MS;
    uint8_t zz = answerItem.bytes.size() > 1 ? answerItem.bytes[1] : 0;
    if (hostAnswerWire.size() == 1) {
      if (b == 0xFF && !answerItem.repeatBytes.empty()) {
        // NAK: the foreign master repeats its master part once
        Item rep; rep.kind = Item::TELEGRAM; rep.bytes = answerItem.repeatBytes; rep.origins.assign(rep.bytes.size(), 'F');
        rep.expectAnswer = true; rep.answerReaction[0] = answerItem.answerReaction[0]; rep.answerReaction[1] = answerItem.answerReaction[1];
        awaitHostAnswer = false;
        script.push_front(rep);
        return;
      }
      if (b != 0x00 || specIsMaster(zz)) { finishAnswer(false); return; }   // NAK, or ACK of a master-master telegram
      return;
    }
    // slave response: NN data CRC (escaped); detect completeness
    std::vector<uint8_t> un; bool esc = false;
    for (size_t i = 1; i < hostAnswerWire.size(); i++) {
      uint8_t x = hostAnswerWire[i];
      if (esc) { un.push_back(x == 0 ? 0xA9 : 0xAA); esc = false; }
      else if (x == 0xA9) esc = true; else un.push_back(x);
    }
    if (!esc && !un.empty() && un.size() == (size_t)un[0] + 2) {
      // complete: the foreign master reacts
      int react = answerItem.answerReaction[std::min(answerAttempt, 1)];
      int64_t t = lastByteTime + SYM;
      if (react == 0) { emitF(t, 0x00); finishAnswer(false); }
      else if (react == 1) {
        emitF(t, 0xFF);
        answerAttempt++;
        hostAnswerWire.assign(1, 0x00);
        if (answerAttempt >= 2) finishAnswer(false);
      } else if (react == 2) { emitF(t, 0x42); finishAnswer(false); }
      else finishAnswer(false);
    }
  }
  void emitF(int64_t t, uint8_t b) {
    if (t < lastByteTime) t = lastByteTime;
    log.push_back({t, b, 'F', false, 0});
    lastByteTime = t;
    deliver(t, b, 'F');
  }
  void finishAnswer(bool timeout) {
    awaitHostAnswer = false;
    // the foreign master releases the bus with a SYN
    Item s; s.kind = Item::SYN; s.gap = timeout ? SYM : 2 * SYM;
    script.push_front(s);
  }
};

// ---- scenario building blocks --------------------------------------------------------------------------------------
struct Telegram {
  uint8_t qq, zz, pb, sb;
  std::vector<uint8_t> data, sdata;
};

/** wire image of a complete well-formed exchange incl. acknowledges (no leading/trailing SYN) */
inline void wireOf(const Telegram& t, bool nakMaster, bool nakSlave, bool firstBadCrcM, bool firstBadCrcS, std::vector<uint8_t>* w, std::vector<char>* org) {
  std::vector<uint8_t> m = {t.qq, t.zz, t.pb, t.sb, (uint8_t)t.data.size()};
  m.insert(m.end(), t.data.begin(), t.data.end());
  auto add = [&](const std::vector<uint8_t>& v, char o) { for (uint8_t b : v) { w->push_back(b); org->push_back(o); } };
  if (nakMaster) { add(specWire(m, firstBadCrcM ? 0x11 : 0), 'F'); if (t.zz != 0xFE) add({0xFF}, 'S'); }
  add(specWire(m), 'F');
  if (t.zz == 0xFE) return;
  add({0x00}, 'S');
  if (specIsMaster(t.zz)) return;
  std::vector<uint8_t> s = {(uint8_t)t.sdata.size()};
  s.insert(s.end(), t.sdata.begin(), t.sdata.end());
  if (nakSlave) { add(specWire(s, firstBadCrcS ? 0x22 : 0), 'S'); add({0xFF}, 'F'); }
  add(specWire(s), 'S');
  add({0x00}, 'F');
}

static const uint8_t MASTERS[25] = {0x00, 0x10, 0x30, 0x70, 0xF0, 0x01, 0x11, 0x31, 0x71, 0xF1, 0x03, 0x13, 0x33, 0x73, 0xF3,
                                    0x07, 0x17, 0x37, 0x77, 0xF7, 0x0F, 0x1F, 0x3F, 0x7F, 0xFF};

inline uint8_t biasedByte(vf::Rng& r) {
  static const uint8_t B[] = {0xA9, 0xAA, 0x00, 0x01, 0xFF, 0xFE, 0xA8};
  return r.chance(1, 3) ? B[r.below(7)] : r.byte();
}

}  // namespace bsim
#endif
