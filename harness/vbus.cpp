#include "vbus.h"
#include <errno.h>
#include <fcntl.h>
#include <poll.h>
#include <pthread.h>
#include <time.h>
#include <unistd.h>
#include <cstring>

namespace vbus {

Bus g;
thread_local int t_clientIdx = -1;

void Bus::reset() {
  std::lock_guard<std::recursive_mutex> l(mtx);
  rx.clear(); txlog.clear(); rxlog.clear();
  deviceValid = true; openFailures = 0;
  onWrite = nullptr; chunk = nullptr; pump = nullptr; onIdle = nullptr;
  ppollCalls = readCalls = writeCalls = 0;
  failPpoll.clear(); failRead.clear(); zeroRead.clear(); failWrite.clear(); shortWrite.clear();
  faultsFired = 0;
  stopRequested = false;
  for (auto& c : clientWaiting) c = false;
  for (auto& c : clientState) c = 0;
  holdTimeWhileClientsRun = false;
  idleRealSleepUs = 0;
  realUsPerVirtualMs = 0;
  paceDebt = 0;
}

ebusd::result_t SimTransport::openInternal() {
  std::lock_guard<std::recursive_mutex> l(g.mtx);
  if (g.openFailures > 0) {
    g.openFailures--;
    return ebusd::RESULT_ERR_NOTFOUND;
  }
  m_fd = ::open("/dev/null", O_RDWR);
  if (m_fd < 0) return ebusd::RESULT_ERR_NOTFOUND;
  g.fd = m_fd;
  g.deviceValid = true;
  return ebusd::RESULT_OK;
}

void SimTransport::checkDevice() {
  bool valid;
  { std::lock_guard<std::recursive_mutex> l(g.mtx); valid = g.deviceValid; }
  if (!valid) close();
}

void realSleepUs(long us);
}  // namespace vbus

using vbus::g;

extern "C" {
time_t __real_time(time_t*);
int __real_clock_gettime(clockid_t, struct timespec*);
int __real_ppoll(struct pollfd*, nfds_t, const struct timespec*, const sigset_t*);
ssize_t __real_read(int, void*, size_t);
ssize_t __real_write(int, const void*, size_t);
int __real_close(int);
int __real_usleep(useconds_t);
int __real_pthread_cond_timedwait(pthread_cond_t*, pthread_mutex_t*, const struct timespec*);

time_t __wrap_time(time_t* t) {
  if (!g.virtualTime.load(std::memory_order_relaxed)) return __real_time(t);
  std::lock_guard<std::recursive_mutex> l(g.mtx);
  time_t v = (time_t)(g.now / 1000000000LL);
  if (t) *t = v;
  return v;
}

int __wrap_clock_gettime(clockid_t id, struct timespec* ts) {
  if (id != CLOCK_REALTIME || !g.virtualTime.load(std::memory_order_relaxed)) return __real_clock_gettime(id, ts);
  std::lock_guard<std::recursive_mutex> l(g.mtx);
  ts->tv_sec = (time_t)(g.now / 1000000000LL);
  ts->tv_nsec = (long)(g.now % 1000000000LL);
  return 0;
}

int __wrap_ppoll(struct pollfd* fds, nfds_t nfds, const struct timespec* tmo, const sigset_t* sm) {
  std::unique_lock<std::recursive_mutex> l(g.mtx);
  if (nfds != 1 || g.fd < 0 || fds[0].fd != g.fd) {
    l.unlock();
    return __real_ppoll(fds, nfds, tmo, sm);
  }
  if (g.holdTimeWhileClientsRun) {
    // a client thread is between "released" and "blocked": let it get there before virtual time moves on
    l.unlock();
    for (int spin = 0; spin < 20000; spin++) {
      bool running = false;
      for (auto& c : g.clientState) if (c == 1) { running = true; break; }
      if (!running) break;
      __real_usleep(10);
    }
    l.lock();
  }
  long idx = g.ppollCalls++;
  fds[0].revents = 0;
  if (g.failPpoll.count(idx)) {
    g.faultsFired++;
    fds[0].revents = POLLHUP;
    return 1;
  }
  int64_t timeout = tmo ? (int64_t)tmo->tv_sec * 1000000000LL + tmo->tv_nsec : 0;
  int64_t horizon = g.now + timeout;
  if (g.pump) g.pump(horizon);
  if (!g.rx.empty() && g.rx.front().t <= horizon) {
    if (g.rx.front().t > g.now) {
      int64_t delta = g.rx.front().t - g.now;
      g.now = g.rx.front().t;
      if (g.realUsPerVirtualMs > 0) {
        g.paceDebt += (double)delta / 1e6 * g.realUsPerVirtualMs;
        if (g.paceDebt >= 50) { long us = (long)g.paceDebt; g.paceDebt -= us; l.unlock(); __real_usleep((useconds_t)us); l.lock(); }
      }
    }
    fds[0].revents = POLLIN;
    return 1;
  }
  if (g.realUsPerVirtualMs > 0) g.paceDebt += (double)(horizon - g.now) / 1e6 * g.realUsPerVirtualMs;
  g.now = horizon;
  if (g.onIdle) g.onIdle();
  long slp = g.idleRealSleepUs;
  if (g.paceDebt >= 50) { slp += (long)g.paceDebt; g.paceDebt -= (long)g.paceDebt; }
  l.unlock();
  if (slp > 0) __real_usleep((useconds_t)slp);
  return 0;
}

ssize_t __wrap_read(int fd, void* buf, size_t n) {
  std::unique_lock<std::recursive_mutex> l(g.mtx);
  if (g.fd < 0 || fd != g.fd) {
    l.unlock();
    return __real_read(fd, buf, n);
  }
  long idx = g.readCalls++;
  if (g.failRead.count(idx)) { g.faultsFired++; errno = EIO; return -1; }
  if (g.zeroRead.count(idx)) { g.faultsFired++; return 0; }
  size_t avail = 0;
  for (auto& r : g.rx) { if (r.t <= g.now) avail++; else break; }
  if (avail == 0) return 0;
  size_t cnt = avail < n ? avail : n;
  if (g.chunk) {
    size_t c = g.chunk(avail, n);
    if (c < 1) c = 1;
    if (c < cnt) cnt = c;
  }
  uint8_t* out = (uint8_t*)buf;
  for (size_t i = 0; i < cnt; i++) {
    out[i] = g.rx.front().b;
    g.rxlog.push_back({g.now, out[i]});
    g.rx.pop_front();
  }
  return (ssize_t)cnt;
}

ssize_t __wrap_write(int fd, const void* buf, size_t n) {
  std::unique_lock<std::recursive_mutex> l(g.mtx);
  if (g.fd < 0 || fd != g.fd) {
    l.unlock();
    return __real_write(fd, buf, n);
  }
  long idx = g.writeCalls++;
  if (g.failWrite.count(idx)) { g.faultsFired++; errno = EIO; return -1; }
  const uint8_t* b = (const uint8_t*)buf;
  size_t cnt = n;
  if (g.shortWrite.count(idx) && n > 0) { g.faultsFired++; cnt = n - 1; }
  for (size_t i = 0; i < cnt; i++) g.txlog.push_back({g.now, b[i]});
  if (g.onWrite && cnt) g.onWrite(b, cnt);
  return (ssize_t)cnt;
}

int __wrap_close(int fd) {
  {
    std::lock_guard<std::recursive_mutex> l(g.mtx);
    if (g.fd >= 0 && fd == g.fd) g.fd = -1;
  }
  return __real_close(fd);
}

int __wrap_usleep(useconds_t us) {
  if (!g.virtualTime.load(std::memory_order_relaxed)) return __real_usleep(us);
  std::lock_guard<std::recursive_mutex> l(g.mtx);
  g.now += (int64_t)us * 1000LL;
  return 0;
}

int __wrap_pthread_cond_timedwait(pthread_cond_t* c, pthread_mutex_t* m, const struct timespec* abst) {
  {
    std::unique_lock<std::recursive_mutex> l(g.mtx);
    if (g.busWaitCond == (const void*)c) {
      // the bus thread sleeps (reconnect delay): advance the virtual clock instead of waiting
      int64_t t = (int64_t)abst->tv_sec * 1000000000LL + abst->tv_nsec;
      if (t > g.now) g.now = t;
      return ETIMEDOUT;
    }
  }
  // other waiters (client threads in Queue::remove): the deadline is in virtual time, wait a short real time instead
  int ci = vbus::t_clientIdx;
  if (ci >= 0 && ci < 64) { g.clientWaiting[ci] = true; g.clientWaits++; g.clientState[ci] = 2; }
  struct timespec rt;
  __real_clock_gettime(CLOCK_REALTIME, &rt);
  rt.tv_nsec += 2000000;
  if (rt.tv_nsec >= 1000000000) { rt.tv_sec++; rt.tv_nsec -= 1000000000; }
  int r = __real_pthread_cond_timedwait(c, m, &rt);
  if (ci >= 0 && ci < 64) { g.clientWaiting[ci] = false; g.clientState[ci] = 1; }
  return r;
}
}

namespace vbus {
void realSleepUs(long us) { __real_usleep((useconds_t)us); }
}
