// C14 monitor: real EnhancedDevice + real FileTransport (SimTransport) on the virtual descriptor.
// Streams of adapter bytes are delivered under every read chunking; the sequence of (symbol, arbitration outcome)
// returned by Device::recv is compared with a reference decoder written from docs/enhanced_proto.md and must be
// identical for every chunking, as must the sequence of DeviceListener diagnostics.  Requests written by the device
// are compared with the documented two-byte encoding.  Second part: FileTransport::read/readConsumed FIFO check.
#include "hcommon.h"
#include "vbus.h"
#include "lib/ebus/device_trans.h"
#include "lib/ebus/symbol.h"
#include <memory>
#include <algorithm>

using namespace ebusd;
using namespace vf;
using vbus::g;

// ---- reference decoder (docs/enhanced_proto.md) -------------------------------------------------------------
struct Ev { char kind; uint8_t sym; char arb; };   // kind 'S' symbol; arb: '-' none, 'W' won, 'L' lost
static bool operator==(const Ev& a, const Ev& b) { return a.kind == b.kind && a.sym == b.sym && a.arb == b.arb; }
static std::string evs(const std::vector<Ev>& v) {
  std::string o;
  for (auto& e : v) { o += e.kind; o += hex1(e.sym); if (e.arb != '-') o += e.arb; o += ' '; }
  return o;
}
static std::vector<Ev> refDecode(const std::vector<uint8_t>& s) {
  std::vector<Ev> out;
  for (size_t i = 0; i < s.size(); i++) {
    uint8_t b = s[i];
    if (b < 0x80) { out.push_back({'S', b, '-'}); continue; }
    if ((b & 0xc0) == 0x80) continue;                 // lone second byte: dropped
    if (i + 1 >= s.size()) break;                     // first byte, transfer not complete: nothing yet
    uint8_t b2 = s[++i];
    if ((b2 & 0xc0) != 0x80) continue;                // dangling first byte: it and the following byte are lost
    uint8_t cmd = (b >> 2) & 0xf, d = (uint8_t)(((b & 3) << 6) | (b2 & 0x3f));
    if (cmd == 0x1) out.push_back({'S', d, '-'});       // RECEIVED
    else if (cmd == 0x2) out.push_back({'S', d, 'W'});  // STARTED
    else if (cmd == 0xa) out.push_back({'S', d, 'L'});  // FAILED
    // INFO, RESETTED, ERROR_*, undefined: no symbol
  }
  return out;
}

struct Listener : public DeviceListener {
  std::vector<std::string> diags;
  void notifyDeviceData(const symbol_t* data, size_t len, bool received) override {}
  void notifyDeviceStatus(bool error, const char* message) override { diags.push_back(std::string(error ? "E:" : "N:") + message); }
};

struct Segment { std::vector<uint8_t> bytes; int action; uint8_t arg; };   // action before the bytes: 0 none 1 startArb 2 send 3 info 4 cancel
struct Observed { std::vector<Ev> evs; std::vector<std::string> diags; std::vector<uint8_t> tx; std::string rawseq; std::string arbseq; bool closed; std::vector<size_t> timeoutAt; };

static Stats st;

// run one case (segments) under a chunking given as a list of chunk sizes (cycled); returns what was observed
static Observed runCase(const std::vector<Segment>& segs, const std::vector<size_t>& chunks) {
  Observed ob; ob.closed = false;
  g.reset();
  size_t ci = 0;
  g.chunk = [&](size_t avail, size_t cap) { size_t c = chunks.empty() ? avail : chunks[ci++ % chunks.size()]; return c; };
  Listener lis;
  auto* tr = new vbus::SimTransport("sim", 0, false);
  EnhancedDevice dev(tr);
  dev.setListener(&lis);
  dev.open();
  // answer the INIT request like an adapter does (RESETTED with feature bit 0), consumed before the case starts
  g.push(g.now, 0xc0); g.push(g.now, 0x81);
  for (int i = 0; i < 4; i++) { symbol_t v; ArbitrationState a = as_none; dev.recv(10, &v, &a); }
  lis.diags.clear();
  g.txlog.clear();
  ci = 0;
  for (auto& sg : segs) {
    if (sg.action == 1) dev.startArbitration(sg.arg);
    else if (sg.action == 2) dev.send(sg.arg);
    else if (sg.action == 3) dev.requestEnhancedInfo(sg.arg, false);
    else if (sg.action == 4) dev.startArbitration(SYN);
    for (uint8_t b : sg.bytes) g.push(g.now, b);
    // the segment is followed by a plain terminator symbol in its own read chunk: it forces buffered leftovers to be
    // processed in every chunking alike (on a real bus further traffic always follows)
    int termPushed = 0;
    const int NTERM = 4;   // an undefined command aborts the processing of the buffer until new data arrives
    int idle = 0;
    result_t last = RESULT_OK;
    for (int guard = 0; guard < 100000 && idle < 2; guard++) {
      symbol_t v = 0; ArbitrationState a = as_none;
      if (g.rx.empty() && termPushed < NTERM && last != RESULT_CONTINUE) { termPushed++; ci = 0; g.push(g.now, 0x7e); }
      // like the protocol handler: after RESULT_CONTINUE the next call uses timeout 0 to fetch buffered data
      result_t r = dev.recv(last == RESULT_CONTINUE ? 0 : 15, &v, &a);
      last = r;
      st.n["recv_calls"]++;
      // won/lost results are the decoded outcomes; error/timeout states cancel a running arbitration and may coalesce with
      // a following outcome inside one buffer, they are counted but not compared between chunkings
      if (a == as_won) ob.arbseq += 'W'; else if (a == as_lost) ob.arbseq += 'L';
      else if (a == as_error) st.n["arbitration_error_states"]++;
      else if (a == as_timeout) { st.n["arbitration_timeout_states"]++; ob.timeoutAt.push_back(ob.evs.size()); }   // after how many symbols
      if (r == RESULT_OK || r == RESULT_CONTINUE) {
        idle = 0;
        char arb = a == as_won ? 'W' : a == as_lost ? 'L' : '-';
        ob.evs.push_back({'S', v, arb});
        ob.rawseq += "S" + hex1(v) + ":" + std::to_string((int)a) + " ";
      } else {
        if (a != as_none && a != as_running) ob.rawseq += "A:" + std::to_string((int)a) + " ";
        if (r != RESULT_ERR_TIMEOUT) { ob.rawseq += "R" + std::to_string(r) + " "; }
        if (g.rx.empty() && termPushed >= NTERM) idle++;
        if (!dev.isValid()) { ob.closed = true; break; }
      }
    }
    if (ob.closed) break;
  }
  ob.diags = lis.diags;
  for (auto& t : g.txlog) ob.tx.push_back(t.b);
  return ob;
}

static std::vector<uint8_t> ALPHA;
static void initAlpha() {
  // plain bytes, first bytes of each response kind (with data high bits), valid second bytes, invalid seconds
  ALPHA = {0x00, 0x55, 0x7f,
           0xc6 /*RECEIVED d=10xxxxxx -> AA with 2a*/, 0xc5 /*RECEIVED 01..*/, 0xca /*STARTED 10*/, 0xe9 /*FAILED 01*/, 0xcd /*INFO*/,
           0xc0 /*RESETTED*/, 0xec /*ERROR_EBUS*/, 0xf0 /*ERROR_HOST*/, 0xd4 /*undefined cmd 5*/,
           0xaa /*second 2a*/, 0x81 /*second 01*/, 0x95 /*second 15*/};
}

static std::string hexv(const std::vector<uint8_t>& v) { return hex(v); }

static std::string around(const std::vector<Ev>& a, const std::vector<Ev>& b) {
  size_t i = 0;
  while (i < a.size() && i < b.size() && a[i] == b[i]) i++;
  size_t from = i > 4 ? i - 4 : 0;
  std::vector<Ev> x(a.begin() + (long)std::min(from, a.size()), a.begin() + (long)std::min(i + 5, a.size()));
  std::vector<Ev> y(b.begin() + (long)std::min(from, b.size()), b.begin() + (long)std::min(i + 5, b.size()));
  return "first difference at event " + std::to_string(i) + " (" + std::to_string(a.size()) + " vs " + std::to_string(b.size()) + " events): ..." + evs(x) + "... vs ..." + evs(y) + "...";
}

static void checkStream(const std::vector<Segment>& segs, const std::vector<std::vector<size_t>>& chunkings, const std::string& what, bool withRef = true) {
  std::vector<uint8_t> all;
  for (auto& s : segs) all.insert(all.end(), s.bytes.begin(), s.bytes.end());
  Observed first;
  bool have = false;
  for (auto& ch : chunkings) {
    Observed ob = runCase(segs, ch);
    st.n["evaluations"]++;
    if (!have) {
      first = ob; have = true;
      // (1) against the reference (per segment, since a dangling first byte is completed by the next segment's bytes)
      if (!ob.closed && withRef) {
        std::vector<uint8_t> withTerm;
        for (auto& sg : segs) { withTerm.insert(withTerm.end(), sg.bytes.begin(), sg.bytes.end()); for (int k = 0; k < 4; k++) withTerm.push_back(0x7e); }
        std::vector<Ev> exp = refDecode(withTerm);
        if (!(ob.evs == exp)) {
          violation("decode-differs-from-protocol", what + " stream=" + hexv(all) + " got=" + evs(ob.evs) + " expected=" + evs(exp));
          return;
        }
      }
    } else {
      std::string cs;
      for (size_t c : ch) cs += std::to_string(c) + ",";
      bool overflow = false;
      for (auto& d : ob.diags) if (d.find("overflow") != std::string::npos) overflow = true;
      for (auto& d : first.diags) if (d.find("overflow") != std::string::npos) overflow = true;
      if (overflow) { st.n["skipped_buffer_overflow"]++; continue; }
      if (ob.evs == first.evs && ob.timeoutAt != first.timeoutAt) {
        // the arbitration timeout (third SYN without a result) is a function of the decoded symbols: it has to come at the same symbol
        std::string a1, a2; for (auto x : ob.timeoutAt) a1 += std::to_string(x) + " "; for (auto x : first.timeoutAt) a2 += std::to_string(x) + " ";
        violation("chunking-changes-arbitration-timeout", what + " stream=" + hexv(all) + " chunking=" + cs + " timeout after symbol(s) [" + a1 + "] vs [" + a2 + "]");
        return;
      }
      if (!(ob.evs == first.evs) || ob.arbseq != first.arbseq || ob.closed != first.closed) {
        violation("chunking-changes-symbols", what + " stream=" + hexv(all) + " chunking=" + cs + " " + around(ob.evs, first.evs) + " arb=[" + ob.arbseq + "] vs [" + first.arbseq + "] closed=" + std::to_string(ob.closed) + "/" + std::to_string(first.closed));
        return;
      }
      if (ob.diags != first.diags) {
        std::string a, b;
        for (auto& d : ob.diags) a += d + "|";
        for (auto& d : first.diags) b += d + "|";
        violation("chunking-changes-diagnostics", what + " stream=" + hexv(all) + " chunking=" + cs + " got=" + a + " unchunked=" + b);
        return;
      }
      if (ob.tx != first.tx) {
        violation("chunking-changes-requests", what + " stream=" + hexv(all) + " chunking=" + cs + " tx=" + hexv(ob.tx) + " unchunked=" + hexv(first.tx));
        return;
      }
    }
  }
}

// all compositions of n (ordered partitions) as chunk lists
static void partitions(size_t n, std::vector<std::vector<size_t>>* out) {
  out->clear();
  if (n == 0) { out->push_back({}); return; }
  for (unsigned mask = 0; mask < (1u << (n - 1)); mask++) {
    std::vector<size_t> p; size_t cur = 1;
    for (size_t i = 0; i + 1 < n; i++) { if (mask & (1u << i)) { p.push_back(cur); cur = 1; } else cur++; }
    p.push_back(cur);
    out->push_back(p);
  }
  // first entry must be "all at once"
  for (size_t i = 0; i < out->size(); i++) if ((*out)[i].size() == 1) { std::swap((*out)[0], (*out)[i]); break; }
}

static void checkRequests() {
  // (4) every request the device issues is the documented two byte sequence 11ccccdd 10dddddd
  for (int v = 0; v < 256; v++) {
    for (int kind = 1; kind <= 3; kind++) {
      g.reset();
      Listener lis;
      auto* tr = new vbus::SimTransport("sim", 0, false);
      EnhancedDevice dev(tr);
      dev.setListener(&lis);
      dev.open();
      g.push(g.now, 0xc0); g.push(g.now, 0x81);
      for (int i = 0; i < 3; i++) { symbol_t s; ArbitrationState a = as_none; dev.recv(10, &s, &a); }
      g.txlog.clear();
      uint8_t cmd = 0;
      if (kind == 1) { dev.send((symbol_t)v); cmd = 1; }
      else if (kind == 2) { if (v == SYN) continue; dev.startArbitration((symbol_t)v); cmd = 2; }
      else { dev.requestEnhancedInfo((symbol_t)v, false); cmd = 3; if (v == 0xff) continue; }
      st.n["evaluations"]++;
      st.n["requests_checked"]++;
      st.n["distinct_nontrivial"]++;
      uint8_t e1 = (uint8_t)(0xc0 | (cmd << 2) | ((v & 0xc0) >> 6)), e2 = (uint8_t)(0x80 | (v & 0x3f));
      if (g.txlog.size() != 2 || g.txlog[0].b != e1 || g.txlog[1].b != e2) {
        std::vector<uint8_t> t; for (auto& x : g.txlog) t.push_back(x.b);
        violation("request-encoding", "cmd=" + std::to_string(cmd) + " data=" + hex1((uint8_t)v) + " written=" + hex(t) + " expected=" + hex1(e1) + hex1(e2));
      }
    }
  }
  // init request after open: <INIT> with feature bit 0
  g.reset();
  {
    Listener lis;
    auto* tr = new vbus::SimTransport("sim", 0, false);
    EnhancedDevice dev(tr);
    dev.setListener(&lis);
    dev.open();
    if (g.txlog.size() != 2 || g.txlog[0].b != 0xc0 || g.txlog[1].b != 0x81)
      violation("request-encoding", "INIT after open not c0 81");
  }
}

// ---- plain transport FIFO ---------------------------------------------------------------------------------------
struct TListener : public TransportListener {
  int overflows = 0;
  result_t notifyTransportStatus(bool opened) override { return RESULT_OK; }
  void notifyTransportMessage(bool error, const char* message) override { if (strstr(message, "overflow")) overflows++; }
};

static void checkTransport(Rng& rng, long cases) {
  for (long c = 0; c < cases; c++) {
    g.reset();
    TListener tl;
    vbus::SimTransport tr("sim", 0, false);
    tr.setListener(&tl);
    tr.open();
    size_t total = (size_t)rng.range(1, 400);
    std::vector<uint8_t> stream;
    for (size_t i = 0; i < total; i++) stream.push_back(rng.byte());
    std::deque<uint8_t> fifo;    // reference: bytes read from the device and not yet consumed
    std::vector<uint8_t> handed; // what the transport handed out (consumed bytes, in order)
    std::vector<uint8_t> expect; // reference of the same
    size_t fed = 0;
    int lastOver = 0;
    bool bad = false;
    int maxChunk = rng.chance(1, 2) ? 64 : 8;
    g.chunk = [&](size_t avail, size_t cap) { return (size_t)rng.range(1, maxChunk); };
    for (int step = 0; step < 4000 && !bad; step++) {
      if (fed < total && rng.chance(2, 3)) {
        size_t n = (size_t)rng.range(1, 40);
        for (size_t i = 0; i < n && fed < total; i++) g.push(g.now, stream[fed++]);
      }
      const uint8_t* data = nullptr; size_t len = 0;
      size_t before = g.rxlog.size();
      result_t r = tr.read(rng.chance(1, 4) ? 0 : 5, &data, &len);
      // bytes newly taken from the device join the reference FIFO; an overflow report empties it first
      if (tl.overflows != lastOver) { fifo.clear(); lastOver = tl.overflows; st.n["overflows"]++; }
      for (size_t i = before; i < g.rxlog.size(); i++) fifo.push_back(g.rxlog[i].b);
      if (r == RESULT_OK) {
        if (len != fifo.size()) { violation("transport-buffer-length", "len=" + std::to_string(len) + " reference=" + std::to_string(fifo.size())); bad = true; break; }
        for (size_t i = 0; i < len; i++) if (data[i] != fifo[i]) { violation("transport-bytes-altered", "index " + std::to_string(i)); bad = true; break; }
        size_t cons = (size_t)rng.range(0, (int)len + (rng.chance(1, 10) ? 3 : 0));
        tr.readConsumed(cons);
        for (size_t i = 0; i < cons && !fifo.empty(); i++) { handed.push_back(fifo.front()); fifo.pop_front(); }
      } else if (r != RESULT_ERR_TIMEOUT) { violation("transport-read-error", std::to_string(r)); bad = true; }
      if (fed >= total && g.rx.empty() && fifo.empty()) break;
    }
    st.n["evaluations"]++;
    st.n["transport_cases"]++;
    st.n["distinct_nontrivial"]++;
  }
}

int main(int argc, char** argv) {
  Args a(argc, argv);
  installDeathCallback();
  initAlpha();
  std::string mode = a.str("mode", "exh");
  uint64_t seed = (uint64_t)a.num("seed", 1);
  Rng rng(seed);
  if (mode == "single") {
    std::string h = a.str("stream", "");
    std::vector<uint8_t> sb;
    for (size_t i = 0; i + 1 < h.size(); i += 2) sb.push_back((uint8_t)strtol(h.substr(i, 2).c_str(), nullptr, 16));
    std::vector<size_t> ch;
    std::string cs = a.str("chunks", "");
    size_t p0 = 0;
    while (p0 < cs.size()) { size_t q = cs.find(',', p0); if (q == std::string::npos) q = cs.size(); if (q > p0) ch.push_back((size_t)atoi(cs.substr(p0, q - p0).c_str())); p0 = q + 1; }
    Observed ob = runCase({{sb, (int)a.num("action", 0), (uint8_t)a.num("arg", 0x31)}}, ch);
    std::string d; for (auto& x : ob.diags) d += x + "|";
    printf("O\t%s\t[%s]\t%s\t%s\n", ob.rawseq.c_str(), ob.arbseq.c_str(), d.c_str(), hex(ob.tx).c_str());
    return 0;
  }
  if (mode == "requests") { checkRequests(); st.sample("samples", "send(0xaa) must be written as c6 aa; startArbitration(0x31) as c8 b1"); }
  if (mode == "transport") { checkTransport(rng, a.num("n", 2000)); st.sample("samples", "random stream up to 400 bytes, read chunks 1..64, partial readConsumed"); }
  if (mode == "exh") {
    size_t len = (size_t)a.num("len", 4);
    int shard = (int)a.num("shard", 0), shards = (int)a.num("shards", 1);
    std::vector<std::vector<size_t>> parts;
    for (size_t n = 1; n <= len; n++) {
      partitions(n, &parts);
      std::vector<size_t> idx(n, 0);
      long count = 0;
      while (true) {
        if ((count++ % shards) == shard) {
          std::vector<uint8_t> s;
          for (size_t i = 0; i < n; i++) s.push_back(ALPHA[idx[i]]);
          bool nontriv = false;
          for (uint8_t b : s) if (b >= 0x80) nontriv = true;
          if (nontriv) st.n["distinct_nontrivial"]++;
          current("exh " + hex(s));
          // variants: plain; with a running arbitration started before the stream
          checkStream({{s, 0, 0}}, parts, "passive");
          if (n <= 3 || (count % 3) == 0) checkStream({{s, 1, 0x31}}, parts, "arbitration-running");
          if (st.lists["samples"].size() < 2 && nontriv && (count % 1000) == 7) st.sample("samples", "stream " + hex(s) + " under all " + std::to_string(parts.size()) + " chunkings");
        }
        size_t k = 0;
        while (k < n && ++idx[k] == ALPHA.size()) { idx[k] = 0; k++; }
        if (k == n) break;
      }
    }
    st.n["exhaustive_len"] = (long long)len;
  }
  if (mode == "syncount") {
    // running arbitration without a result: the timeout comes with the third further SYN, wherever the chunk borders are.
    // streams of 1..5 RECEIVED(SYN) frames with 0..2 other symbols (plain and two-byte form) at every position, all chunkings
    std::vector<std::vector<size_t>> parts;
    for (int nsyn = 1; nsyn <= 5; nsyn++) for (int nother = 0; nother <= 2; nother++) {
      int total = nsyn + nother;
      for (int mask = 0; mask < (1 << total); mask++) {
        if (__builtin_popcount((unsigned)mask) != nother) continue;
        for (int form = 0; form < (nother ? 2 : 1); form++) {
          std::vector<uint8_t> s;
          for (int i = 0; i < total; i++) {
            if (mask & (1 << i)) { if (form == 0) s.push_back(0x15); else { s.push_back(0xc7); s.push_back(0xbf); } }
            else { s.push_back(0xc6); s.push_back(0xaa); }
          }
          if (s.size() > 12) continue;
          partitions(s.size(), &parts);
          current("syncount " + hex(s));
          st.n["distinct_nontrivial"]++;
          checkStream({{s, 1, 0x31}}, parts, "arbitration-timeout");
        }
      }
    }
  }
  if (mode == "random") {
    long n = a.num("n", 300);
    for (long c = 0; c < n; c++) {
      std::vector<Segment> segs;
      int ns = rng.range(1, 4);
      for (int s = 0; s < ns; s++) {
        Segment sg; sg.action = rng.chance(1, 2) ? 0 : rng.range(1, 4); sg.arg = rng.chance(1, 2) ? (uint8_t)0x31 : rng.byte();
        if (sg.action == 1 && sg.arg == SYN) sg.arg = 0x10;
        size_t len = (size_t)(rng.chance(1, 5) ? rng.range(200, 1200) : rng.range(1, 40));
        for (size_t i = 0; i < len; i++) {
          int r = rng.range(0, 9);
          if (r < 3) sg.bytes.push_back((uint8_t)rng.range(0, 0x7f));
          else if (r < 6) { uint8_t d = rng.byte(); uint8_t cmd = (uint8_t)(rng.chance(4, 5) ? 1 : rng.pick(std::vector<int>{0, 2, 3, 0xa, 0xb, 0xc, 5}));
            // avoid RESETTED in random long streams except rarely (it closes the transport when unrequested)
            if (cmd == 0 && !rng.chance(1, 20)) cmd = 1;
            sg.bytes.push_back((uint8_t)(0xc0 | (cmd << 2) | (d >> 6))); sg.bytes.push_back((uint8_t)(0x80 | (d & 0x3f))); }
          else if (r < 8) sg.bytes.push_back(ALPHA[rng.below((uint32_t)ALPHA.size())]);
          else sg.bytes.push_back(rng.byte());
        }
        segs.push_back(sg);
      }
      // long streams: chunks stay <= 8 bytes so that the 32 byte transport buffer never reaches its overflow reset (which
      // legitimately discards data and is covered by the transport part)
      std::vector<std::vector<size_t>> chunkings = {{4}, {1}, {2}, {1, 2, 3}, {8}, {5, 1, 1, 7}};
      std::vector<size_t> rnd;
      for (int i = 0; i < 16; i++) rnd.push_back((size_t)rng.range(1, 8));
      chunkings.push_back(rnd);
      current("random case " + std::to_string(c) + " seed " + std::to_string(seed));
      // the reference comparison is only valid without host actions changing decoder state mid-stream: use chunk equality
      checkStream(segs, chunkings, "random", false);
      st.n["distinct_nontrivial"]++;
      if (c == 0) st.sample("samples", "random segments, first: " + hex(segs[0].bytes).substr(0, 80));
    }
  }
  st.emit();
  return g_violations ? 1 : 0;
}
