// libFuzzer target (C20): arbitrary bytes from the bus device / the enhanced adapter into the real
// FileTransport -> PlainDevice|EnhancedDevice -> DirectProtocolHandler stack (virtual bus, stepped execution), with optional
// pending requests, registered answers and device faults; afterwards a fixed valid telegram must still be received.
//
// input: byte0 config, byte1 chunking seed, rest = program:
//   f0..f3  delay of 1..4 symbol times, f4..f7 silence of 60..240 ms     f8  queue a request built from the next 6 bytes
//   f9      next read() fails                    fa  next write() fails         fb  device invalid until reopened
//   fc      register an answer from next 5 bytes fd  next byte is a literal     fe  poll() hangs up      ff  read returns 0
//   other   byte arrives 4.2 ms after the previous one
#include "bus_sim.h"
#include "fuzz_common.h"

using namespace bsim;

namespace {

struct Feeder {
  const uint8_t* p; size_t n, pos = 0;
  bool done() const { return pos >= n; }
  uint8_t next() { return pos < n ? p[pos++] : 0; }
};

struct Fuzzed {
  bool enhanced, echo;
  int64_t lastRx;
  std::vector<uint8_t> enhPartial;
  uint8_t infoData[4] = {0, 0, 0, 0};
  void pushAt(int64_t t, uint8_t b) {
    // keep rx ordered by time
    auto it = g.rx.end();
    while (it != g.rx.begin() && (it - 1)->t > t) --it;
    g.rx.insert(it, {t, b});
  }
  void enhFrame(int64_t t, uint8_t cmd, uint8_t d) {
    pushAt(t, (uint8_t)(0xc0 | (cmd << 2) | (d >> 6)));
    pushAt(t, (uint8_t)(0x80 | (d & 0x3f)));
  }
  void busByteToHost(int64_t t, uint8_t b) {
    if (!enhanced || b < 0x80) pushAt(t, b); else enhFrame(t, 1, b);
  }
  void onWrite(const uint8_t* buf, size_t n) {
    if (!echo) return;
    for (size_t i = 0; i < n; i++) {
      uint8_t b = buf[i];
      if (!enhanced) { busByteToHost(g.now + SYM, b); continue; }
      if (enhPartial.empty()) {
        if (b < 0x80) { busByteToHost(g.now + SYM, b); continue; }
        if ((b & 0xc0) == 0xc0) enhPartial.push_back(b);
        continue;
      }
      uint8_t f = enhPartial[0];
      enhPartial.clear();
      uint8_t cmd = (uint8_t)((f >> 2) & 0xf), d = (uint8_t)(((f & 3) << 6) | (b & 0x3f));
      if (cmd == 0) enhFrame(g.now + SYM, 0, 0x01);
      else if (cmd == 1) busByteToHost(g.now + SYM, d);
      else if (cmd == 2) { if (d != 0xAA) enhFrame(g.now + 2 * SYM, (infoData[0] & 1) ? 0xa : 2, d); }
      else if (cmd == 3) { uint8_t len = (uint8_t)(infoData[1] % 20); enhFrame(g.now + SYM, 3, len); for (uint8_t k = 0; k < len; k++) enhFrame(g.now + SYM, 3, (uint8_t)(infoData[2] + k)); }
    }
  }
};

}  // namespace

static bool g_init = false;

extern "C" int LLVMFuzzerInitialize(int* argc, char*** argv) {
  setFacilitiesLogLevel(-1, ll_none);
  vbus::g.virtualTime = false;
  fz::startWatchdog();
  g_init = true;
  return 0;
}

extern "C" int LLVMFuzzerTestOneInput(const uint8_t* data, size_t size) {
  if (size < 2 || size > 4096) return 0;
  fz::UnitScope scope;
  vbus::g.virtualTime = true;
  uint8_t cfgByte = data[0];
  vf::Rng chunkRng(data[1]);
  Feeder in{data + 2, size - 2};
  g.reset();
  g.now = 1700000000LL * 1000000000LL;
  Fuzzed fzd;
  fzd.enhanced = (cfgByte & 1) != 0;
  fzd.echo = (cfgByte & 32) != 0;
  fzd.lastRx = g.now;
  fzd.infoData[0] = data[1]; fzd.infoData[1] = (uint8_t)(data[1] >> 1); fzd.infoData[2] = (uint8_t)size;
  bool chunking = (data[1] & 3) != 0;
  g.chunk = [&](size_t avail, size_t cap) -> size_t { return chunking ? 1 + chunkRng.below(8) : avail; };
  g.onWrite = [&](const uint8_t* b, size_t n) { fzd.onWrite(b, n); };
  ebus_protocol_config_t pc;
  memset(&pc, 0, sizeof(pc));
  pc.device = "sim"; pc.noDeviceCheck = true; pc.readOnly = (cfgByte & 4) != 0; pc.ownAddress = 0x31;
  pc.answer = (cfgByte & 2) != 0; pc.busLostRetries = 2; pc.failedSendRetries = 1;
  pc.busAcquireTimeout = 10; pc.slaveRecvTimeout = 25; pc.lockCount = (cfgByte & 64) ? 3 : 0; pc.generateSyn = (cfgByte & 8) != 0; pc.initialSend = (cfgByte & 128) != 0;
  auto* tr = new vbus::SimTransport("sim", 0, true);
  Device* dev = fzd.enhanced ? (Device*)new EnhancedDevice(tr) : (Device*)new PlainDevice(tr);
  RecListener lis;
  std::vector<ObsRequest*> reqs;
  {
    SimHandler handler(pc, dev, &lis);
    g.busWaitCond = handler.waitCond();
    handler.steppedReopen = true;
    handler.open();
    long steps = 0, budget = 64 * ((long)size + 16) + 2000;
    int64_t startTime = g.now;
    bool allowRequests = (cfgByte & 16) != 0 && !pc.readOnly;
    // program interpretation is lazy: the pump hook supplies the next arrival when the queue runs dry
    auto feed = [&]() {
      while (!in.done() && g.rx.size() < 2) {
        uint8_t b = in.next();
        if (b >= 0xf0 && b <= 0xf3) { fzd.lastRx = std::max(fzd.lastRx, g.now) + (int64_t)((b & 3) + 1) * SYM; continue; }          // short delay (one..four symbol times)
        if (b >= 0xf4 && b <= 0xf7) { fzd.lastRx = std::max(fzd.lastRx, g.now) + (int64_t)((b & 3) + 1) * 60 * MS; continue; }      // silence beyond the timeouts
        if (b == 0xf8) {
          MasterSymbolString m;
          m.push_back(0x31); uint8_t zz = in.next(); m.push_back(zz == 0xaa || zz == 0xa9 ? 0x08 : zz); m.push_back(in.next()); m.push_back(in.next());
          uint8_t nn = (uint8_t)(in.next() % 5); m.push_back(nn); uint8_t d0 = in.next(); for (uint8_t k = 0; k < nn; k++) m.push_back((uint8_t)(d0 + k * 0x55));
          if (allowRequests && reqs.size() < 6) { auto* r = new ObsRequest(m); r->restarts = d0 & 1; reqs.push_back(r); handler.addRequest(r, false); }
          continue;
        }
        if (b == 0xf9) { g.failRead.insert(g.readCalls); continue; }
        if (b == 0xfa) { g.failWrite.insert(g.writeCalls); continue; }
        if (b == 0xfb) { std::lock_guard<std::recursive_mutex> l(g.mtx); g.deviceValid = false; g.openFailures = 1; continue; }
        if (b == 0xfc) {
          uint8_t src = in.next(), pb = in.next(), sb = in.next(), idl = (uint8_t)(in.next() % 5), a0 = in.next();
          symbol_t id[4] = {a0, (symbol_t)(a0 + 1), (symbol_t)(a0 + 2), (symbol_t)(a0 + 3)};
          SlaveSymbolString ans; ans.push_back((symbol_t)(a0 % 9)); for (uint8_t k = 0; k < a0 % 9; k++) ans.push_back((symbol_t)(a0 ^ (k * 0x2b)));
          if (pc.answer) handler.setAnswer((src & 1) ? SYN : (symbol_t)0x10, (src & 2) ? (symbol_t)0x36 : (symbol_t)0x31, pb, sb, id, idl, ans);
          continue;
        }
        if (b == 0xfe) { g.failPpoll.insert(g.ppollCalls); continue; }
        if (b == 0xff) { g.zeroRead.insert(g.readCalls); continue; }
        if (b == 0xfd) b = in.next();
        fzd.lastRx = std::max(fzd.lastRx + SYM, g.now);
        fzd.pushAt(fzd.lastRx, b);    // transport level byte (for the enhanced device: an adapter frame byte)
        // the two bytes of an adapter frame travel together (nothing else gets in between)
        if (fzd.enhanced && (b & 0xc0) == 0xc0 && in.pos < in.n && (in.p[in.pos] & 0xc0) == 0x80) fzd.pushAt(fzd.lastRx, in.next());
      }
    };
    g.pump = [&](int64_t) { feed(); };
    int quiet = 0;
    while (steps < budget) {
      feed();
      handler.step();
      steps++;
      if (in.done() && g.rx.empty()) { if (++quiet > 8) break; } else quiet = 0;
    }
    if (!(in.done() && g.rx.empty())) fz::violation("c20-unbounded-work", "input of " + std::to_string(size) + " bytes not consumed after " + std::to_string(steps) + " handler loop iterations");
    // (virtual time is not work: gap and device-invalid operations of the program legitimately consume seconds of it)
    (void)startTime;
    // ---- probe: after silence (pending work is flushed with 'no signal') a valid telegram is still received
    g.failRead.clear(); g.failWrite.clear(); g.failPpoll.clear(); g.zeroRead.clear(); g.shortWrite.clear();
    { std::lock_guard<std::recursive_mutex> l(g.mtx); g.deviceValid = true; g.openFailures = 0; }
    g.pump = nullptr;
    g.chunk = nullptr;
    fzd.echo = false;      // the probe is foreign traffic only: whatever the host still tries to send gets no echo / no adapter reply
    g.rx.clear();
    // silence: long enough for the reconnect back-off and the signal-loss detection in every state
    for (int i = 0; i < 400 && steps < budget + 4000; i++, steps++) handler.step();
    int64_t t = g.now + 50 * MS;
    // CRCs computed by the spec routine to stay independent of the table
    std::vector<uint8_t> wire = {0xaa, 0xaa, 0xaa, 0xaa, 0xaa};
    { auto m = specWire({0x10, 0x08, 0xb5, 0x09, 0x02, 0x0d, 0x01}); wire.insert(wire.end(), m.begin(), m.end()); wire.push_back(0x00);
      auto s = specWire({0x01, 0x65}); wire.insert(wire.end(), s.begin(), s.end()); wire.push_back(0x00); wire.push_back(0xaa); wire.push_back(0xaa); wire.push_back(0xaa); }
    size_t before = lis.msgs.size();
    for (uint8_t b : wire) { fzd.busByteToHost(t, b); t += SYM; }
    for (int i = 0; i < 3000 && !(g.rx.empty() && i > 40); i++, steps++) handler.step();
    if (!g.rx.empty()) fz::violation("c20-unbounded-work", "the probe telegram was not consumed within 3000 handler loop iterations");
    bool found = false;
    for (size_t i = before; i < lis.msgs.size(); i++) {
      auto& m = lis.msgs[i];
      if (m.dir == md_recv && m.master == std::vector<uint8_t>{0x10, 0x08, 0xb5, 0x09, 0x02, 0x0d, 0x01} && m.slave == std::vector<uint8_t>{0x01, 0x65}) found = true;
    }
    if ((!found && getenv("VERIF_FUZZ_VERBOSE")) || getenv("VERIF_FUZZ_TRACE")) {
      std::string sts; for (auto& x : lis.states) sts += std::to_string((int)x.first) + ":" + std::to_string((int)x.second) + " ";
      fprintf(stderr, "STATES %s\nDIAG ", sts.c_str()); for (auto& x : handler.diag) fprintf(stderr, "%s|", x.c_str());
      fprintf(stderr, "\nRX "); for (auto& x : g.rxlog) fprintf(stderr, "%02x@%lld ", x.b, (long long)((x.t / 1000000) % 1000000));
      fprintf(stderr, "\nTX "); for (auto& x : g.txlog) fprintf(stderr, "%02x@%lld ", x.b, (long long)((x.t / 1000000) % 1000000));
      fprintf(stderr, "\nvalid=%d fd=%d rxleft=%zu now=%lld\n", (int)dev->isValid(), g.fd, g.rx.size(), (long long)((g.now / 1000000) % 1000000));
    }
    if (!found) fz::violation("c20-probe-not-received", "after the input the telegram 1008b509020d01/0165 following 5 SYN was not reported (cfg=" + vf::hex1(cfgByte) + ", " + std::to_string(lis.msgs.size() - before) + " other reports)");
    for (auto* r : reqs) handler.takeFinished(r);   // the handler's destructor would delete what is left in its finished queue
    g.busWaitCond = nullptr;
  }
  // requests: every one was handed back exactly as often as asked, none is touched after the handler is gone
  for (auto* r : reqs) {
    if (r->notifications > 2) fz::violation("c20-request-notified-too-often", std::to_string(r->notifications) + " notifications");
    delete r;
  }
  g.reset();
  vbus::g.virtualTime = false;
  return 0;
}
