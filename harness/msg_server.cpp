// msg_server: executes batches of MessageMap/Message operations on the real code (message.cpp, data.cpp,
// filereader.cpp) under virtual time; all judging is done by the Python monitors.  Used by C08 C09 C13 C17 C19 (C12).
// Link with -Wl,--wrap=time.
//
// Commands (TAB separated, payload text esc-encoded like codec_server):
//   TIME t                          set virtual time() (seconds)
//   NEW map addAll                  new MessageMap                     -> n map
//   TEMPL csv                       (re)load templates text            -> T code err
//   LOAD map csv [filename]         MessageMap::readFromStream         -> l code nmsgs err
//   DUMP map                        dump(false, OF_NONE)               -> u text
//   LIST map                        all messages with attributes       -> L n, then n lines "M ident prio level nfields dump"
//   FIND map masterhex any rd wr pas avail                             -> f ident|-
//   FINDN map circuit name levels isWrite isPassive                    -> f ident|-
//   PREP map circuit name isWrite index qq zz input                    -> p code masterhex
//   STORE map circuit name isWrite isPassive masterhex slavehex        -> s code       (find by name, storeLastData(m,s))
//   STOREM map masterhex slavehex                                      -> s code ident (find(master) then storeLastData)
//   DECODE map circuit name isWrite isPassive fmt [field]              -> d code text
//   AVAIL map circuit name isWrite isPassive                           -> a 0|1|-
//   RESOLVE map                                                        -> r code err
//   POLL map n                                                         -> q ident ident ...
//   SETPRIO map circuit name prio                                      -> o 0|1
//   ADDPOLL map circuit name front                                     -> o 1
//   REMOVE map circuit name isWrite isPassive                          -> o 0|1
//   SPLIT text                      FileReader::splitFields (all lines) -> x nrows (row: fields joined by \x1f, rows by \x1e)
//   DUMPSTR text                    AttributedItem::dumpString         -> y text
//   DEL map
#include "hcommon.h"
#include "lib/ebus/message.h"
#include "lib/ebus/data.h"
#include "lib/ebus/filereader.h"
#include "lib/ebus/symbol.h"
#include <deque>
#include <fstream>
#include <iostream>

using namespace ebusd;
using namespace vf;
using std::string;
using std::vector;
using std::map;

static time_t g_now = 1700000000;
extern "C" time_t __real_time(time_t*);
extern "C" time_t __wrap_time(time_t* t) { if (t) *t = g_now; return g_now; }

static string esc(const string& s) {
  string o;
  for (unsigned char c : s) {
    if (c == '\\') o += "\\\\";
    else if (c == '\t') o += "\\t";
    else if (c == '\n') o += "\\n";
    else if (c == '\r') o += "\\r";
    else if (c < 0x20 || c >= 0x7f) { char b[8]; snprintf(b, sizeof(b), "\\x%02x", c); o += b; }
    else o += (char)c;
  }
  return o;
}
static string unesc(const string& s) {
  string o;
  for (size_t i = 0; i < s.size(); i++) {
    if (s[i] != '\\' || i + 1 >= s.size()) { o += s[i]; continue; }
    char n = s[++i];
    if (n == 't') o += '\t'; else if (n == 'n') o += '\n'; else if (n == 'r') o += '\r'; else if (n == '\\') o += '\\';
    else if (n == 'x' && i + 2 < s.size()) { o += (char)strtol(s.substr(i + 1, 2).c_str(), nullptr, 16); i += 2; }
    else o += n;
  }
  return o;
}
static vector<string> splitTab(const string& l) {
  vector<string> v; size_t p = 0;
  while (true) { size_t q = l.find('\t', p); if (q == string::npos) { v.push_back(l.substr(p)); break; } v.push_back(l.substr(p, q - p)); p = q + 1; }
  return v;
}

static DataFieldTemplates* g_templates = nullptr;
class SrvResolver : public Resolver {
 public:
  DataFieldTemplates* getTemplates(const string& filename) override { return g_templates; }
  result_t loadDefinitionsFromConfigPath(FileReader* reader, const string& filename, map<string, string>* defaults,
      string* errorDescription, bool replace = false) override { return RESULT_ERR_NOTFOUND; }
};
static SrvResolver g_resolver;
static map<string, MessageMap*> g_maps;

static string ident(const Message* m) {
  if (!m) return "-";
  std::ostringstream o;
  o << m->getCircuit() << "|" << m->getName() << "|" << (m->isPassive() ? (m->isWrite() ? "uw" : "u") : (m->isWrite() ? "w" : "r")) << "|";
  if (m->getSrcAddress() != SYN) o << hex1(m->getSrcAddress());
  o << "|";
  if (m->getDstAddress() != SYN) o << hex1(m->getDstAddress());
  o << "|";
  std::ostringstream idf;
  m->dumpField("pbsb", false, OF_NONE, &idf);
  idf << "/";
  m->dumpField("id", false, OF_NONE, &idf);
  o << idf.str();
  return o.str();
}

static bool parseMaster(const string& h, MasterSymbolString* m) { return m->parseHex(h) == RESULT_OK; }

static Message* byName(MessageMap* mm, const vector<string>& f, size_t at) {
  // circuit name isWrite isPassive
  return mm->find(unesc(f[at]), unesc(f[at + 1]), "*", f[at + 2] == "1", f[at + 3] == "1");
}

static string exec(const vector<string>& f) {
  const string& op = f[0];
  std::ostringstream o;
  if (op == "TIME") { g_now = (time_t)atoll(f[1].c_str()); return "t"; }
  if (op == "NEW") {
    auto it = g_maps.find(f[1]);
    if (it != g_maps.end()) delete it->second;
    MessageMap* mm = new MessageMap(f.size() > 2 && f[2] == "1", "", false);  // the ident field set is a process-wide singleton: only one map may own it
    mm->setResolver(&g_resolver);
    g_maps[f[1]] = mm;
    return "n\t" + f[1];
  }
  if (op == "TEMPL") {
    delete g_templates;
    g_templates = new DataFieldTemplates();
    std::istringstream in(unesc(f[1]));
    string err;
    result_t r = g_templates->readFromStream(&in, "templates.csv", 0, false, nullptr, &err);
    return "T\t" + std::to_string(r) + "\t" + esc(err);
  }
  if (op == "SPLIT") {
    std::istringstream in(unesc(f[1]));
    unsigned int lineNo = 0;
    vector<string> row;
    string out;
    int rows = 0;
    while (in.peek() != EOF) {
      bool ok = FileReader::splitFields(&in, &row, &lineNo, nullptr, nullptr);
      if (!ok) break;
      if (rows++) out += "\x1e";
      for (size_t i = 0; i < row.size(); i++) { if (i) out += "\x1f"; out += row[i]; }
      if (rows > 1000) break;
    }
    return "x\t" + std::to_string(rows) + "\t" + esc(out);
  }
  if (op == "DUMPSTR") {
    std::ostringstream out;
    AttributedItem::dumpString(false, unesc(f[1]), &out);
    return "y\t" + esc(out.str());
  }
  auto it = g_maps.find(f.size() > 1 ? f[1] : "");
  if (it == g_maps.end()) return "?\tno map";
  MessageMap* mm = it->second;
  if (op == "DEL") { delete mm; g_maps.erase(it); return "D"; }
  if (op == "LOAD") {
    std::istringstream in(unesc(f[2]));
    string err;
    string fn = f.size() > 3 ? unesc(f[3]) : "test.csv";
    result_t r = mm->readFromStream(&in, fn, 0, false, nullptr, &err);
    return "l\t" + std::to_string(r) + "\t" + std::to_string(mm->size()) + "\t" + esc(err);
  }
  if (op == "DUMP") {
    std::ostringstream out;
    mm->dump(false, OF_NONE, &out);
    return "u\t" + esc(out.str());
  }
  if (op == "LIST") {
    std::deque<Message*> msgs;
    mm->findAll("", "", "*", false, true, true, true, true, false, 0, 0, false, &msgs);
    o << "L\t" << msgs.size();
    for (auto m : msgs) {
      std::ostringstream d;
      m->dump(nullptr, false, OF_NONE, &d);
      o << "\nM\t" << esc(ident(m)) << "\t" << m->getPollPriority() << "\t" << esc(m->getLevel()) << "\t" << m->getFieldCount()
        << "\t" << m->getCount() << "\t" << esc(d.str()) << "\t" << esc(m->getAttribute("comment"));
    }
    return o.str();
  }
  if (op == "FIND") {
    MasterSymbolString ms;
    if (!parseMaster(f[2], &ms)) return "f\t?";
    Message* m = mm->find(ms, f[3] == "1", f[4] == "1", f[5] == "1", f[6] == "1", f[7] == "1");
    return "f\t" + esc(ident(m));
  }
  if (op == "FINDN") {
    Message* m = mm->find(unesc(f[2]), unesc(f[3]), unesc(f[4]), f[5] == "1", f[6] == "1");
    return "f\t" + esc(ident(m));
  }
  if (op == "PREP") {
    Message* m = mm->find(unesc(f[2]), unesc(f[3]), "*", f[4] == "1", false);
    if (!m) return "p\t-999\t";
    std::istringstream in(unesc(f[8]));
    MasterSymbolString ms;
    symbol_t qq = (symbol_t)strtol(f[6].c_str(), nullptr, 16);
    symbol_t zz = f[7].empty() ? SYN : (symbol_t)strtol(f[7].c_str(), nullptr, 16);
    result_t r = m->prepareMaster((size_t)atoi(f[5].c_str()), qq, zz, UI_FIELD_SEPARATOR, &in, &ms);
    return "p\t" + std::to_string(r) + "\t" + hex(ms.data(), ms.size()) + "\t" + std::to_string(m->getCount());
  }
  if (op == "PREPS") {
    // PREPS map circuit name isWrite input -> P code slavehex   (Message::prepareSlave)
    Message* m = mm->find(unesc(f[2]), unesc(f[3]), "*", f[4] == "1", false);
    if (!m) return "P\t-999\t";
    std::istringstream in(unesc(f[5]));
    SlaveSymbolString ss;
    result_t r = m->prepareSlave(&in, &ss);
    return "P\t" + std::to_string(r) + "\t" + hex(ss.data(), ss.size());
  }
  if (op == "STOREP") {
    // STOREP map circuit name isWrite index masterhex slavehex -> s code   (store one chain part by index)
    Message* m = mm->find(unesc(f[2]), unesc(f[3]), "*", f[4] == "1", false);
    if (!m) return "s\t-999";
    MasterSymbolString ms; SlaveSymbolString ss;
    bool withMaster = f[6] != "-";
    if (withMaster) ms.parseHex(f[6]);
    ss.parseHex(f[7]);
    size_t idx = (size_t)atoi(f[5].c_str());
    result_t r = withMaster ? m->storeLastData(idx, ms) : RESULT_OK;
    if (r >= RESULT_OK) r = m->storeLastData(idx, ss);
    return "s\t" + std::to_string(r);
  }
  if (op == "STORE") {
    Message* m = byName(mm, f, 2);
    if (!m) return "s\t-999";
    MasterSymbolString ms; SlaveSymbolString ss;
    ms.parseHex(f[6]); ss.parseHex(f[7]);
    result_t r = m->storeLastData(ms, ss);
    return "s\t" + std::to_string(r);
  }
  if (op == "STOREI") {
    // what BusHandler does with every telegram it has seen: invalidate the cached state of the same-named messages, then store
    Message* m = byName(mm, f, 2);
    if (!m) return "s\t-999";
    MasterSymbolString ms; SlaveSymbolString ss;
    ms.parseHex(f[6]); ss.parseHex(f[7]);
    mm->invalidateCache(m);
    result_t r = m->storeLastData(ms, ss);
    return "s\t" + std::to_string(r);
  }
  if (op == "STOREM") {
    MasterSymbolString ms; SlaveSymbolString ss;
    ms.parseHex(f[2]); ss.parseHex(f[3]);
    Message* m = mm->find(ms);
    if (!m) return "s\t-999\t-";
    result_t r = m->storeLastData(ms, ss);
    return "s\t" + std::to_string(r) + "\t" + esc(ident(m));
  }
  if (op == "DECODE") {
    Message* m = byName(mm, f, 2);
    if (!m) return "d\t-999\t";
    std::ostringstream out;
    string fn = f.size() > 7 ? unesc(f[7]) : "";
    result_t r = m->decodeLastData(pt_any, false, f.size() > 7 ? fn.c_str() : nullptr, -1, (OutputFormat)atoi(f[6].c_str()), &out);
    return "d\t" + std::to_string(r) + "\t" + esc(out.str()) + "\t" + hex(m->getLastMasterData().data(), m->getLastMasterData().size())
      + "\t" + hex(m->getLastSlaveData().data(), m->getLastSlaveData().size());
  }
  if (op == "AVAIL") {
    // by name, including currently unavailable ones: search all
    std::deque<Message*> msgs;
    mm->findAll(unesc(f[2]), unesc(f[3]), "*", true, true, true, true, true, false, 0, 0, false, &msgs);
    string res;
    for (auto m : msgs) {
      if (m->isWrite() != (f[4] == "1") || m->isPassive() != (f[5] == "1")) continue;
      if (f.size() > 6 && !f[6].empty() && esc(ident(m)) != f[6]) continue;
      res += (res.empty() ? "" : ",") + string(m->isAvailable() ? "1" : "0");
    }
    return "a\t" + (res.empty() ? string("-") : res);
  }
  if (op == "RESOLVE") {
    string err;
    result_t r = mm->resolveConditions(false, &err);
    return "r\t" + std::to_string(r) + "\t" + esc(err);
  }
  if (op == "POLL") {
    int n = atoi(f[2].c_str());
    o << "q";
    for (int i = 0; i < n; i++) {
      Message* m = mm->getNextPoll();
      o << "\t" << (m ? esc(m->getCircuit() + "/" + m->getName()) : "-");
    }
    return o.str();
  }
  if (op == "SETPRIO") {
    Message* m = mm->find(unesc(f[2]), unesc(f[3]), "*", false, false);
    if (!m) return "o\t-";
    bool r = m->setPollPriority((size_t)atoi(f[4].c_str()));
    if (r) mm->addPollMessage(false, m);   // as MainLoop::executeRead does
    return string("o\t") + (r ? "1" : "0") + "\t" + std::to_string(m->getPollPriority());
  }
  if (op == "ADDPOLL") {
    Message* m = mm->find(unesc(f[2]), unesc(f[3]), "*", false, false);
    if (!m) return "o\t-";
    mm->addPollMessage(f[4] == "1", m);
    return "o\t1";
  }
  if (op == "REMOVE") {
    Message* m = byName(mm, f, 2);
    if (!m) return "o\t0";
    mm->remove(m);
    return "o\t1";
  }
  return "?\tunknown op " + op;
}

int main(int argc, char** argv) {
  installDeathCallback();
  g_templates = new DataFieldTemplates();
  std::istream* in = &std::cin;
  std::ifstream fin;
  if (argc > 1) { fin.open(argv[1]); in = &fin; }
  std::ios::sync_with_stdio(false);
  string line;
  while (std::getline(*in, line)) {
    if (line.empty()) continue;
    if (line == "Q") break;
    current(line.substr(0, 900));
    std::cout << exec(splitTab(line)) << "\n";
  }
  std::cout.flush();
  for (auto& kv : g_maps) delete kv.second;
  delete g_templates;
  return 0;
}
