// Daemon-level world for C16/C18/C20: the real MainLoop + BusHandler + MessageMap + ScanHelper (+ MqttHandler with a fake
// MQTT client) on top of a synchronous protocol stub that records every telegram the daemon wants to put on the bus.
#ifndef VERIF_DAEMON_SIM_H_
#define VERIF_DAEMON_SIM_H_

#include <config.h>
#include <sys/stat.h>
#include <fstream>
#include <functional>
#include <memory>
#include "hcommon.h"
#include "vbus.h"
#include "ebusd/main.h"
#include "ebusd/mainloop.h"
#include "ebusd/bushandler.h"
#include "ebusd/scan.h"
#include "ebusd/request.h"
#include "ebusd/mqtthandler.h"
#include "ebusd/mqttclient.h"
#include "lib/ebus/protocol.h"
#include "lib/ebus/device_trans.h"
#include "lib/utils/log.h"

namespace dsim {
using namespace ebusd;  // NOLINT
using vf::hex;

/** what the daemon put "on the bus" */
struct Sent { std::vector<uint8_t> master; bool poll; };

/** protocol stub: every request is completed synchronously with the answer of a universal slave model */
class StubProtocol : public ProtocolHandler {
 public:
  StubProtocol(const ebus_protocol_config_t config, Device* device, ProtocolListener* listener)
    : ProtocolHandler(config, device, listener), signal(true) {}
  std::vector<Sent> sent;
  bool signal;
  /** answer(master) -> slave data bytes (without NN); default: one byte derived from the last ID byte */
  std::function<std::vector<uint8_t>(const std::vector<uint8_t>&)> answer;

  void injectMessage(const MasterSymbolString& master, const SlaveSymbolString& slave) override {
    if (m_listener) m_listener->notifyProtocolMessage(md_recv, master, slave);
  }
  void run() override {}
  bool hasSignal() const override { return signal; }
  result_t addRequest(BusRequest* request, bool wait) override {
    if (m_config.readOnly) return RESULT_ERR_DEVICE;
    for (int guard = 0; guard < 64; guard++) {
      const MasterSymbolString& m = request->getMaster();
      std::vector<uint8_t> mb;
      for (size_t i = 0; i < m.size(); i++) mb.push_back(m[i]);
      sent.push_back({mb, !wait});
      SlaveSymbolString slave;
      symbol_t dst = mb.size() > 1 ? mb[1] : 0;
      if (dst != BROADCAST && !isMaster(dst)) {
        std::vector<uint8_t> a = answer ? answer(mb) : std::vector<uint8_t>{};
        slave.push_back((symbol_t)a.size());
        for (uint8_t b : a) slave.push_back(b);
      }
      if (m_listener) m_listener->notifyProtocolMessage(md_send, m, slave);
      bool restart = request->notify(RESULT_OK, slave);
      if (!restart) break;
    }
    if (request->deleteOnFinish()) delete request;
    return RESULT_OK;
  }
};

/** fake MQTT client: records what is published/subscribed, lets the harness deliver topics */
class FakeMqttClient : public MqttClient {
 public:
  FakeMqttClient(const mqtt_client_config_t config, MqttClientListener* listener) : MqttClient(config, listener) {}
  struct Pub { std::string topic, data; bool retain; };
  std::mutex mtx;                       // the MQTT thread publishes, the harness thread reads
  std::vector<Pub> published;
  std::vector<std::string> subscribed;
  std::atomic<long> runs{0};
  bool connect(bool& isAsync, bool& connected) override { isAsync = false; connected = true; return true; }
  bool run(bool allowReconnect, bool& connected) override { runs++; connected = true; return true; }
  void publishTopic(const std::string& topic, const std::string& data, int qos, bool retain = false) override {
    std::lock_guard<std::mutex> l(mtx);
    published.push_back({topic, data, retain});
  }
  void publishEmptyTopic(const std::string& topic, int qos, bool retain = false) override {
    std::lock_guard<std::mutex> l(mtx);
    published.push_back({topic, "", retain});
  }
  void subscribeTopic(const std::string& topic) override { std::lock_guard<std::mutex> l(mtx); subscribed.push_back(topic); }
  size_t publishedCount() { std::lock_guard<std::mutex> l(mtx); return published.size(); }
  std::vector<Pub> publishedFrom(size_t from) { std::lock_guard<std::mutex> l(mtx); return std::vector<Pub>(published.begin() + (long)from, published.end()); }
};

extern FakeMqttClient* g_lastMqttClient;

/** configure the process-wide MQTT options through the real option parser */
inline bool mqttOption(const char* name, const char* value) {
  const argParseChildOpt* child = mqtthandler_getargs();
  for (const argDef* d = child->argDefs; d && d->help; d++) {
    if (d->name && strcmp(d->name, name) == 0) {
      static std::vector<char*>* kept = new std::vector<char*>();   // the handler stores the pointer
      char* arg = value ? strdup(value) : nullptr;
      kept->push_back(arg);
      return child->parser(d->key, arg, nullptr, nullptr) == 0;
    }
  }
  return false;
}

inline std::string g_tmpDir;
inline std::string tmpDir() {
  if (g_tmpDir.empty()) {
    const char* base = getenv("VERIF_TMP");
    std::string t = std::string(base && *base ? base : "/dev/shm") + "/vdaemon-XXXXXX";
    std::vector<char> buf(t.begin(), t.end()); buf.push_back(0);
    if (!mkdtemp(buf.data())) { perror("mkdtemp"); exit(2); }
    g_tmpDir = buf.data();
  }
  return g_tmpDir;
}
inline void writeFile(const std::string& path, const std::string& content) {
  std::ofstream f(path, std::ios::binary | std::ios::trunc);
  f << content;
}

struct WorldOptions {
  std::string acl;            // content of the ACL file ("" = no file)
  std::string accessLevel;    // --accesslevel
  std::string definitions;    // CSV text
  std::string htmlPath;
  bool enableHex = true, enableDefine = false;
  std::string configPath;     // when set: the definitions are loaded from <configPath>/world.csv through ScanHelper (so that 'reload' works)
  unsigned pollInterval = 0;
  uint8_t address = 0x31;
  bool readOnly = false;
};

struct World {
  WorldOptions wo;
  std::string aclPath;
  options_t opt;
  std::unique_ptr<MessageMap> messages;
  std::unique_ptr<ScanHelper> scan;
  std::unique_ptr<BusHandler> bus;
  StubProtocol* proto = nullptr;
  std::unique_ptr<MainLoop> loop;
  std::unique_ptr<Queue<Request*>> queue;
  FakeMqttClient* mqtt = nullptr;
  MqttHandler* mqttHandler = nullptr;
  result_t loadResult = RESULT_OK;
  std::string loadError;

  explicit World(const WorldOptions& o) : wo(o) {
    memset(&opt, 0, sizeof(opt));
    if (!wo.acl.empty()) { aclPath = tmpDir() + "/acl.csv"; writeFile(aclPath, wo.acl); }
    opt.device = "sim"; opt.configPath = wo.configPath.c_str(); opt.initialScan = ESC; opt.preferLanguage = "";
    opt.pollInterval = wo.pollInterval; opt.address = wo.address; opt.readOnly = wo.readOnly;
    opt.accessLevel = wo.accessLevel.c_str(); opt.aclFile = aclPath.c_str();
    opt.enableHex = wo.enableHex; opt.enableDefine = wo.enableDefine;
    opt.htmlPath = wo.htmlPath.c_str(); opt.scanConfig = false; opt.updateCheck = false;
    opt.pidFile = ""; opt.logFile = ""; opt.logRawFile = ""; opt.dumpFile = ""; opt.dumpConfigTo = "";
    messages.reset(new MessageMap(false, "", false));  // as main.cpp; deleteData=false: the ident fields are a process-wide singleton
    scan.reset(new ScanHelper(messages.get(), wo.configPath, wo.configPath.empty() ? "" : wo.configPath + "/", "", "", nullptr, false));
    messages->setResolver(scan.get());
    bus.reset(new BusHandler(messages.get(), scan.get(), wo.pollInterval));
    ebus_protocol_config_t cfg;
    memset(&cfg, 0, sizeof(cfg));
    cfg.device = "sim"; cfg.ownAddress = wo.address; cfg.readOnly = wo.readOnly; cfg.busLostRetries = 3; cfg.failedSendRetries = 2;
    cfg.busAcquireTimeout = 10; cfg.slaveRecvTimeout = 25; cfg.lockCount = 5;
    proto = new StubProtocol(cfg, new PlainDevice(new vbus::SimTransport("sim", 0, false)), bus.get());
    bus->setProtocol(proto);
    if (!wo.configPath.empty()) {
      loadResult = scan->loadConfigFiles(true);
      if (loadResult == RESULT_OK) scan->executeInstructions(bus.get());      // as main.cpp does: resolves the conditions
    } else if (!wo.definitions.empty()) {
      std::istringstream in(wo.definitions);
      loadResult = messages->readFromStream(&in, "world.csv", 1, true, nullptr, &loadError);
    }
    g_lastMqttClient = nullptr;
    queue.reset(new Queue<Request*>());
    loop.reset(new MainLoop(opt, bus.get(), messages.get(), scan.get(), queue.get()));
    mqtt = g_lastMqttClient;
    if (mqtt) mqttHandler = dynamic_cast<MqttHandler*>(mqtt->m_listener);
  }
  bool threaded = false;
  /** start the real MainLoop thread (which starts the data handler threads) */
  void startThreads() { if (!threaded) { threaded = true; loop->start("mainloop"); } }
  /** what a client connection does (network.cpp Connection::run): hand the request to the main loop, wait for the reply */
  std::string roundtrip(RequestImpl* req, const std::string& data) {
    if (!req->add(data.c_str())) return "<incomplete>";
    queue->push(req);
    std::string result;
    req->waitResponse(&result);
    return result;
  }
  ~World() {
    if (threaded) { loop->shutdown(); }
    loop.reset();
    bus.reset();
    delete proto;
    messages.reset();
    scan.reset();
  }

  struct Reply { result_t result; std::string text; bool connected; };
  /** run one TCP command line (or one HTTP request) on a connection whose state is *user / *mode */
  Reply command(const std::string& line, std::string* user, RequestMode* mode, bool http = false) {
    RequestImpl req(http);
    bool complete = req.add((line + (http ? "\n\n" : "\n")).c_str());
    Reply r{RESULT_OK, "", true};
    if (!complete) { r.text = "<incomplete>"; return r; }
    bool reload = false;
    std::ostringstream out;
    r.result = loop->decodeRequest(&req, &r.connected, mode, user, &reload, &out);
    // as MainLoop::run formats it for the client
    if (!http && (out.tellp() == 0 || r.result != RESULT_OK)) {
      std::string suffix;
      if (r.result == RESULT_EMPTY && out.tellp() > 0) suffix = out.str();
      out.str("");
      out << getResultCode(r.result);
      if (!suffix.empty()) out << " " << suffix;
    }
    r.text = out.str();
    return r;
  }
};

}  // namespace dsim
#endif
