#!/usr/bin/env python3
"""Regenerates MANIFEST.json from the table in checks/registry.py (keeps not_applicable current)."""
import json, os, sys
here = os.path.dirname(os.path.abspath(__file__))
sys.path.insert(0, os.path.join(here, '..', 'checks'))
import registry

props = [json.loads(l)['id'] for l in open(os.path.join(here, '..', 'properties.jsonl'))]
checks, na = [], []
for pid in props:
    r = registry.CHECKS.get(pid)
    if not r or not os.path.exists(os.path.join(here, '..', 'checks', pid.lower() + '.py')):
        na.append({'property_id': pid, 'reason': registry.NOT_CLAIMED.get(pid, 'check not built yet (work in progress); not claimed')})
        continue
    checks.append({
        'property_id': pid,
        'quick_cmd': 'bin/check %s quick' % pid,
        'thorough_cmd': 'bin/check %s thorough' % pid,
        'evidence_file': 'evidence/%s.json' % pid,
        'replay_cmd_template': 'cat {path}',
        'engine': r.get('engine', 'runtime-monitor'),
        'level_claimed': {'category': r.get('level', 'exploration'), 'text': r['text'], 'design_ref': r['design_ref']},
        'level_note': r['note'],
        'technique': r['technique'],
    })
m = {
    'version': 1,
    'setup_cmd': 'bin/setup.sh',
    'hooks': registry.HOOKS,
    'engines': registry.ENGINES,
    'checks': checks,
    'notes': registry.NOTES,
    'not_applicable': na,
}
json.dump(m, open(os.path.join(here, '..', 'MANIFEST.json'), 'w'), indent=1)
print('claimed', len(checks), 'not claimed', len(na))
