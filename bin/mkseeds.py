#!/usr/bin/env python3
"""(Re)creates the seed inputs and dictionaries of the libFuzzer harnesses under /verif/fuzz (committed; deterministic)."""
import os, sys, hashlib
sys.path.insert(0, os.path.join(os.path.dirname(os.path.abspath(__file__)), '..', 'oracle'))
ROOT = os.path.join(os.path.dirname(os.path.abspath(__file__)), '..', 'fuzz')


def put(h, data):
    d = os.path.join(ROOT, 'seeds', h)
    os.makedirs(d, exist_ok=True)
    if isinstance(data, str):
        data = data.encode('latin-1')
    with open(os.path.join(d, hashlib.sha1(data).hexdigest()[:16]), 'wb') as f:
        f.write(data)


def crc(bs):
    c = 0
    for b in bs:
        for i in range(8):
            poly = 0x9B if c & 0x80 else 0
            c = ((c & 0x7f) << 1) | (1 if b & 0x80 else 0)
            c ^= poly
            b = (b << 1) & 0xff
    return c


def esc(bs):
    o = []
    for b in bs:
        o += [0xa9, 0x00] if b == 0xa9 else [0xa9, 0x01] if b == 0xaa else [b]
    return o


def wire(part):
    w = esc(part)
    return w + esc([crc(w)])


def lit(bs):    # program bytes: f0..ff need the literal prefix
    o = []
    for b in bs:
        o += [0xfd, b] if b >= 0xf0 else [b]
    return o


def enh(bs):
    o = []
    for b in bs:
        o += [b] if b < 0x80 else [0xc0 | (1 << 2) | (b >> 6), 0x80 | (b & 0x3f)]
    return o


def bus_seeds():
    t1 = [0xaa, 0xaa] + wire([0x10, 0x08, 0xb5, 0x09, 0x02, 0x0d, 0x01]) + [0x00] + wire([0x01, 0x65]) + [0x00, 0xaa]
    t2 = [0xaa] + wire([0x03, 0xfe, 0xb5, 0x16, 0x03, 0x10, 0xa9, 0xaa]) + [0xaa]
    t3 = [0xaa] + wire([0x10, 0x31, 0xb5, 0x09, 0x01, 0x22]) + [0x00, 0xaa]          # to own master
    t4 = [0xaa] + wire([0x10, 0x36, 0x07, 0x04, 0x00]) + [0x00]                      # to own slave (answer mode)
    nak = [0xaa] + wire([0x10, 0x08, 0xb5, 0x09, 0x02, 0x0d, 0x01]) + [0xff] + wire([0x10, 0x08, 0xb5, 0x09, 0x02, 0x0d, 0x01]) + [0x00] + wire([0x01, 0x65]) + [0x00, 0xaa]
    for cfg in (0x00, 0x02, 0x04, 0x08, 0x10 | 0x20, 0x12 | 0x20, 0x40, 0x80 | 0x30):
        for body in (t1, t2, t3 + t4, nak, t1 + [0xf3] + t2):
            put('fuzz_bus', bytes([cfg, 0x01] + lit(body)))
            put('fuzz_bus', bytes([cfg | 1, 0x02] + lit(enh(body))))
    # requests, answers, faults
    put('fuzz_bus', bytes([0x30, 0x00, 0xf8, 0x08, 0xb5, 0x09, 0x02, 0x0d] + lit([0xaa, 0xaa, 0x00, 0x01, 0x65, 0x16, 0xaa])))
    put('fuzz_bus', bytes([0x31, 0x00, 0xf8, 0x08, 0xb5, 0x09, 0x02, 0x0d] + lit(enh([0xaa, 0xaa])) + [0xc0 | (2 << 2), 0x80 | 0x31] + lit(enh([0x00, 0x01, 0x65, 0x16, 0xaa]))))
    put('fuzz_bus', bytes([0x02, 0x03, 0xfc, 0x01, 0x07, 0x04, 0x00, 0x05] + lit(t4 + [0x00, 0xaa])))
    put('fuzz_bus', bytes([0x00, 0x01] + lit(t1[:6]) + [0xf9] + lit(t1) + [0xfb, 0xf7] + lit(t1)))
    put('fuzz_bus', bytes([0x01, 0x01, 0xc0, 0x81, 0xcc, 0x84, 0xcc, 0x80, 0xcc, 0x81, 0xcc, 0x82, 0xcc, 0x83] + lit(enh(t1))))  # RESETTED + INFO frames
    put('fuzz_bus', bytes([0x01, 0x01, 0xe8, 0x80, 0xec, 0x81, 0xf0, 0x80] + lit(enh(t1))))   # FAILED / ERROR frames
    # own exchange on the enhanced device (echoing adapter) disturbed by an unsolicited adapter frame after 2..12 symbol times
    for delay in (2, 4, 6, 8, 10, 12):
        for fr in ([0xe9, 0x95], [0xc9, 0x95], [0xed, 0x80], [0xc1, 0x81]):     # FAILED, STARTED, ERROR_EBUS, RESETTED
            put('fuzz_bus', bytes([0x31, 0x00, 0xf8, 0x08, 0xb5, 0x09, 0x00, 0x00, 0xc6, 0xaa] + [0xf0] * delay + fr + [0xc6, 0xaa, 0xc6, 0xaa]))
    # the same on the plain device: a foreign byte / SYN in the middle of the own telegram
    for delay in (2, 5, 8, 11):
        for b in (0x55, 0xaa, 0x00):
            put('fuzz_bus', bytes([0x30, 0x00, 0xf8, 0x08, 0xb5, 0x09, 0x02, 0x0d, 0xaa] + [0xf0] * delay + [b, 0xaa, 0xaa]))


def cmd_seeds():
    lines = [
        'read -f -c c1 temp', 'r -m 10 temp t', 'read -v -c c1 multi', 'read -V -n multi a.0', 'read -h 08b509020d01', 'read -p 3 temp',
        'write -c c1 temp 21.5', 'w -c c2 wlist b', 'write -h 08b509030e0115', 'hex 08b509020d02', 'hex -s 10 -n 08b5090d02', 'inject 1008b509020d01/0165',
        'find', 'find -v -a', 'find -f -c c1', 'find -F circuit,name,type temp', 'find -i b5090d -d', 'find -h -r', 'find -l a', 'listen -v -n', 'listen -u -U', 'listen stop',
        'direct', 'state', 'info', 'grab', 'grab result all', 'grab result decode', 'scan', 'scan 08', 'scan full', 'scan result', 'log', 'log bus debug', 'raw', 'raw bytes', 'dump',
        'define "r,x,y,,,08,b509,0d30,v,,UCH"', 'define -r "r,c1,temp,,,08,b509,0d01,t,,D2B"', 'decode -v UCH 65', 'decode "v,,D2C;w,,BDA" 50010a0b0c', 'encode D2C 21.5',
        'encode "a,,UCH;b,,STR:3" 5;abc', 'read -def "r,z,z,,,08,b509,0d31,v,,UIN" ', 'write -def "w,z,z,,,08,b509,0e31,v,,UIN" 5', 'auth u1 s1', 'answer 36070400 0a', 'answer -m 10 31b509 00',
        'decode uch;uch 0102', 'encode uch;uch 1;2', 'decode -v d2c,,C;bda 50010a0b0c11', 'decode -V -n uch,0=off;1=on;str:3 01616263', 'encode str:3;uin,10 abc;12.5',
        'GET /decode?def=uch;uch&raw=0102 HTTP/1.1', 'decode tempsensor 500101', 'decode temp;temp 50015001', 'e temp 21.5',
        'help', 'help read', 'read ?', 'quit', 'reload', 'r', 'w', 'f -c', 'read -s', 'read -d zz temp', 'read -i 5;x temp', "read 'te mp'", 'read "temp" "t.0"',
        'GET / HTTP/1.1', 'GET /data HTTP/1.1', 'GET /data/c1/temp?required&verbose&def HTTP/1.1', 'GET /data/c2?since=1&poll=3&exact=1&full&raw&write HTTP/1.0',
        'GET /data/c1/x?define=r,c1,x,,,08,b509,0d40,v,,UCH&user=u1&secret=s1 HTTP/1.1', 'GET /datatypes HTTP/1.1', 'GET /templates HTTP/1.1', 'GET /templates/c1 HTTP/1.1',
        'GET /raw?since=5&unknown HTTP/1.1', 'GET /decode?def=v,,UCH&raw=65 HTTP/1.1', 'GET /%2e%2e/%2fetc/passwd HTTP/1.1', 'GET /a%%s%n%x.html HTTP/1.1', 'POST /data HTTP/1.1', 'GET',
    ]
    for l in lines:
        put('fuzz_cmd', l)
    for i in range(0, len(lines) - 3, 3):
        put('fuzz_cmd', '\n'.join(lines[i:i + 4]))
    put('fuzz_cmd', 'direct\n08b509020d01\n-s 10 08b5090d02\nstop\nfind')
    put('fuzz_cmd', 'listen\n\n\nlisten stop')
    # histories of definitions: what is stored decides what a later define is compared with / replaces (plain vs chained, same ID)
    put('fuzz_cmd', 'define "r,cir,chain,,,08,b509,0d77;0d77,,,UCH"\ndefine "r,cir,plain,,,08,b509,0d77,,,UCH"\nfind -a -c cir')
    put('fuzz_cmd', 'define "r,cir,plain,,,08,b509,0d78,,,UCH"\ndefine -r "r,cir,chain,,,08,b509,0d78;0d78,,,UCH"\nread -f -c cir chain')
    put('fuzz_cmd', 'define "r,cir,chain,,,08,b509,0d79;0d7a,,,UCH"\ndefine "r,cir,plain,,,08,b509,0d79,,,UCH"\ndefine -r "r,cir,chain,,,08,b509,0d79;0d7a,,,UIN"\nread -c cir plain')
    put('fuzz_cmd', 'GET /data/cir/p?define=r,cir,p,,,08,b509,0d7b,v,,UCH HTTP/1.1\nGET /data/cir/q?define=r,cir,q,,,08,b509,0d7b;0d7b,v,,UCH HTTP/1.1\nGET /data/cir HTTP/1.1')
    # a message a condition of the loaded configuration refers to is replaced (define -r deletes the old object)
    put('fuzz_cmd', 'read -f -c c1 temp\nfind -c c1\ndefine -r "r,c1,temp,outside,,08,b509,0d01,t,,D2B"\nfind -c c1\nread -c c1 ctemp\nfind -a')
    put('fuzz_cmd', 'inject 1008b516030102ff\nGET /data/c2/state?define=u,c2,state,,10,fe,b516,10,st,,UIN HTTP/1.1\nwrite -c c2 cset 1\nfind -a -c c2\nGET /data/c2 HTTP/1.1')
    put('fuzz_cmd', 'define "w,cir,a,,,08,b509,0e7c,v,,UCH"\ndefine "w,cir,a,,,08,b509,0e7c,v,,UIN"\ndefine -r "w,cir,a,,,08,b509,0e7c,v,,UIN"\nwrite -c cir a 5\ndefine -r "u,cir,a,,,08,b509,0e7c,v,,UIN"')
    put('fuzz_cmd', 'define "r,cir,chain,,,08,b509,0d7d;0d7e;0d7d,,,HEX:*"\ndefine -r "r,cir,chain,,,08,b509,0d7d;0d7d,,,HEX:*"\ndefine -r "r,cir,chain,,,08,b509,0d7d,,,HEX:*"\nread -f -c cir chain')


DEFS = open(os.path.join(ROOT, '..', 'harness', 'fuzz_cmd.cpp')).read()


def csv_seeds():
    tmpl = 'temp,D2C,,°C,temperature\npress,UIN,100,bar,\nonoff,UCH,0=off;1=on,,\ndt,,BDA;BTI,,\ntempsensor,temp;onoff:status,,,\n'
    defs = [
        'r,c1,temp,outside,,08,b509,0d01,t,,D2C,,°C,temperature\n',
        'r,c1,m,,,08,b509,0d01,,,temp,,,\nw,c1,m,,,08,b509,0e01,,,temp\n',
        '*r,c1,,,,08,b509,0d\nr,,a,,,,,01,v,,UCH\nr,,b,,,,,02,v,,press;x,,onoff\n*w,,,,,,b509,0e\nw,,a,,,,,01,v,,UCH\n',
        'r3,c2,chain,,,08,b509,0d10;0d11:3;0d12,l,,ULG,,,,m,,HEX:4;s,,STR:*\n',
        'u,c2,state,,10,fe,b516,10,st,,UCH,0=off;1=on;2=auto,,,x,,IGN:1,,,,bits,,BI0:3,,,\nuw,c2,bc,,,fe,b505,27,v,,D1C\n',
        '[cnd]\nr,c1,cnd,,,08,b509,0d50,v,,UCH\n[cnd=1]r,c1,x1,,,08,b509,0d51,v,,UCH\n[cnd>=2;cnd<4]r,c1,x2,,,08,b509,0d52,v,,UCH\n![cnd]r,c1,x3,,,08,b509,0d53,v,,UCH\n',
        '[s]c1,cnd,v=\'a\',\'b\'\n[s]r,c1,q,,,15,b509,0d60,v,,STR:2\n',
        'type,circuit,level,name,comment,qq,zz,pbsb,id,*name,part,type,divisor/values,unit,comment\nr,c1,a,lv,,,08,b509,0d70,v,m,UCH,,,,w,s,UIN,-10,,\n',
        '#comment\n"r","c 1","na""me","a,b",,08,b509,0d80,"v",,UCH,,"u,n;it","multi\nline"\n',
        'r,scan.08,id,,,08,0704,,mf,,UCH,,,,idn,,STR:5,,,,sw,,PIN,,,,hw,,PIN\n!include,other.inc\n!load,x.csv\n',
        'r,c1,bits,,,08,b509,0d90,a,,BI0:1,,,,b,,BI1:2,,,,c,,BI3:5,,,,d,,BI0:7,,,,e,,UCH\n',
        'r,c1,dt,,,08,b509,0da0,d,,BDA:3,,,,e,,HDA,,,,f,,DAY,,,,g,,BTI,,,,h,,VTM,,,,i,,TTM,,,,j,,TTH,,,,k,,TTQ:4,,,,l,,MIN,,,,m,,BDZ\n',
        'r,c1,num,,,08,b509,0db0,a,,D1B,,,,b,,D1C,,,,c,,D2B,,,,d,,FLT,,,,e,,FLR,,,,f,,EXP,,,,g,,ULG,,,,h,,SLR,,,,i,,U3N,,,,j,,S3R,,,,k,,BCD:4,,,,l,,HCD:3,,,,m,,PIN\n',
        'r,c1,const,,,08,b509,0dc0,a,,UCH,=5,,,b,,STR:3,==abc,,,c,,NTS:*\n',
    ]
    hd = '# type,circuit,name,...\n'
    tmpl = '#\n' + tmpl
    for d in defs:
        if not d.startswith('type,'):
            d = hd + d
        put('fuzz_csv', d)
        put('fuzz_csv', tmpl + '\x01' + d + '\x01\x0515;on;2;abc\n\x65\x50\x01\x00\xff')
    put('fuzz_csv', tmpl + '\x01' + hd + ''.join(x for x in defs if not x.startswith('type,')) + '\x01\x08abcdefgh')
    # definitions that meet in the duplicate check / replacement: plain and chained with the same ID, equal names, equal IDs, both load modes (input length parity)
    dups = [
        'r,c1,chain,,,08,b509,0d01;0d01,,,UCH\nr,c1,plain,,,08,b509,0d01,,,UCH\n',
        'r,c1,plain,,,08,b509,0d01,,,UCH\nr,c1,chain,,,08,b509,0d01;0d01,,,UCH\n',
        'r,c1,chain,,,08,b509,0d01;0d02,,,UCH\nr,c1,plain,,,08,b509,0d01,,,UCH\nr,c1,chain2,,,08,b509,0d02;0d01,,,UCH\n',
        'r,c1,a,,,08,b509,0d01,,,UCH\nr,c1,a,,,08,b509,0d02,,,UCH\nr,c1,b,,,08,b509,0d01,,,UIN\nw,c1,a,,,08,b509,0d01,,,UCH\nu,c1,a,,,08,b509,0d01,,,UCH\n',
        'r,c1,chain,,,08,b509,0d01;0d01;0d01,,,HEX:*\nr,c1,chain,,,08,b509,0d01;0d01,,,HEX:*\nr,c2,chain,,,08,b509,0d01:2;0d01:3,,,HEX:*\n',
        '[c]\nr,c1,c,,,08,b509,0d50,v,,UCH\n[c=1]r,c1,x,,,08,b509,0d51;0d51,v,,UCH\n[c=2]r,c1,x,,,08,b509,0d51,v,,UCH\nr,c1,y,,,08,b509,0d51,v,,UCH\n',
    ]
    for d in dups:
        for pad in ('', '# \n'):
            put('fuzz_csv', hd + pad + d)
            put('fuzz_csv', tmpl + '\x01' + hd + pad + d + '\x01\x0501\n')


def codec_seeds():
    types = ['UCH', 'SCH', 'D1B', 'D1C', 'D2B', 'D2C', 'FLT', 'FLR', 'EXP', 'EXR', 'UIN', 'UIR', 'SIN', 'SIR', 'U3N', 'U3R', 'S3N', 'S3R', 'ULG', 'ULR', 'SLG', 'SLR',
             'BCD', 'BCD:2', 'BCD:3', 'BCD:4', 'HCD', 'HCD:1', 'HCD:2', 'HCD:3', 'PIN', 'STR:5', 'STR:*', 'NTS:4', 'HEX:3', 'HEX:*', 'IGN:2', 'BDA', 'BDA:3', 'HDA', 'HDA:3', 'DAY',
             'DTM', 'BTI', 'HTI', 'VTI', 'BTM', 'HTM', 'VTM', 'MIN', 'TTM', 'TTH', 'TTQ', 'TTQ:4', 'BDY', 'HDY', 'BDZ', 'BI0', 'BI3:3', 'BI7:1', 'BI0:7', 'TEM_P']
    vals = ['5', '-1.5', '21.00', 'abc', '31.12.2023', '12:34:56', '12:34', 'Mon', '-', 'on', '0x10', '1e3', '1234', '01.01.2000 00:00', '3;4;5', '']
    for i, t in enumerate(types):
        div = ['', '10', '-10', '0=off;1=on;255=x', '100', '-2'][i % 6]
        put('fuzz_codec', bytes([i % 4 | ((i % 3) << 2)]) + ('v;;%s;%s;u;c' % (t, div)).encode() + b'\x01' + bytes((i * 37 + k * 11) & 0xff for k in range(8)) + b'\x01' + vals[i % len(vals)].encode())
    put('fuzz_codec', b'\x00a;;UCH;;;;b;s;D2C;;;;c;m;STR:3;;;;d;;BI0:2;;;;e;;BI2:3;;;\x01\x05\x50\x01abc\x07\x01' + b'5;21.00;abc;1;2')
    put('fuzz_codec', b'\x41v;;ULG;1000;;\x01\x01\x02\x03\x04\x01' + b'16909.06\x03')
    put('fuzz_codec', b'\xe1v;;UIN;0=a;1=b;2=c;;\x01\x01\x00\x01b\xfe')


def dicts():
    d = os.path.join(ROOT, 'dict')
    os.makedirs(d, exist_ok=True)
    words = ['read', 'write', 'find', 'listen', 'direct', 'hex', 'inject', 'answer', 'define', 'decode', 'encode', 'scan', 'grab', 'state', 'info', 'log', 'raw', 'dump', 'auth',
             'reload', 'quit', 'help', '-f', '-m', '-c', '-s', '-d', '-p', '-v', '-V', '-VV', '-n', '-N', '-i', '-h', '-def', '-r', '-w', '-a', '-e', '-F', '-l', '-u', '-U',
             'result', 'all', 'decode', 'full', 'stop', 'bytes', 'GET ', ' HTTP/1.1', '/data', '/datatypes', '/templates', '/raw', '/decode', '?', '&', '=', 'since=', 'poll=',
             'exact', 'verbose', 'indexed', 'numeric', 'valuename', 'full', 'required', 'maxage=', 'write', 'raw', 'def', 'define=', 'user=', 'secret=', 'unknown', '%2e', '%2f', '%25',
             '%s', '%n', '%x', '%1x', '%%', 'c1', 'c2', 'temp', 'multi', 'chain', 'wlist', 'probe', 'pm', '08b509020d01', '08b509', 'b509', '0d01', 'fe', '31', '10', '"', "'", ';', ',']
    types = ['UCH', 'SCH', 'D1B', 'D1C', 'D2B', 'D2C', 'FLT', 'FLR', 'EXP', 'EXR', 'UIN', 'UIR', 'SIN', 'SIR', 'U3N', 'U3R', 'S3N', 'S3R', 'ULG', 'ULR', 'SLG', 'SLR', 'BCD', 'HCD', 'PIN',
             'STR', 'NTS', 'HEX', 'IGN', 'BDA', 'HDA', 'DAY', 'DTM', 'BTI', 'HTI', 'VTI', 'BTM', 'HTM', 'VTM', 'MIN', 'TTM', 'TTH', 'TTQ', 'BDY', 'HDY', 'BDZ', 'BI0', 'BI1', 'BI7', 'TEM_P',
             ':*', ':1', ':2', ':4', ':16', ':31', '=5', '==', '0=off;1=on', '-10', '1000', 'r', 'w', 'u', 'uw', 'r1', 'r9', '*r', '*w', '[', ']', '![', '!include', '!load', 'scan.', '#',
             ',m,', ',s,', ',,', '\\x01']

    def w(name, ws):
        with open(os.path.join(d, name + '.dict'), 'w') as f:
            for x in ws:
                f.write('"' + ''.join(c if (c.isascii() and c.isalnum()) or c in ' -_/=?&.:*,;[]!#' else '\\x%02x' % ord(c) for c in x) + '"\n')
    w('fuzz_cmd', words + types[:40])
    w('fuzz_csv', types + ['temp', 'press', 'onoff', 'c1', '08', 'b509', '0d01'])
    w('fuzz_codec', types)
    w('fuzz_bus', ['\xaa', '\xa9\x00', '\xa9\x01', '\xaa\x10\x08', '\xf8', '\xfc', '\xfb', '\xf9', '\xfd\xff', '\x00', '\xff', '\xc6\xaa', '\xc8\xb1', '\xc0\x81', '\xcc\x84', '\xe8\x80', '\x31', '\x36'])


bus_seeds(); cmd_seeds(); csv_seeds(); codec_seeds(); dicts()
for h in ('fuzz_bus', 'fuzz_cmd', 'fuzz_csv', 'fuzz_codec'):
    print(h, len(os.listdir(os.path.join(ROOT, 'seeds', h))))
