#!/usr/bin/env python3
"""usage: replay_bus.py <replayfile> <n>  -- re-runs the n-th witness of a bus_driver replay file verbosely"""
import sys, re, subprocess
lines = open(sys.argv[1]).read().split('\n')
w = [i for i, l in enumerate(lines) if l.startswith('--- witness')]
i = w[int(sys.argv[2])]
detail, cmd = lines[i + 1], lines[i + 2]
m = re.search(r'case=(\d+)', detail)
argv = cmd.split() + ['only=' + m.group(1), 'verbose=1']
print(detail[:300])
print(' '.join(argv))
o = subprocess.run(argv, stdout=subprocess.PIPE, stderr=subprocess.PIPE).stdout.decode()
sys.stdout.write(o)
