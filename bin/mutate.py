#!/usr/bin/env python3
"""self-test helper: apply a textual mutation to /repo (working tree only), run checks, revert.
usage: mutate.py <file> <old> <new> <check> [<check>...]   -- prints exit code per check (1 = caught)"""
import subprocess, sys, os
f, old, new = sys.argv[1:4]
checks = sys.argv[4:]
p = os.path.join('/repo', f)
s = open(p).read()
if s.count(old) != 1:
    print('pattern occurs %d times' % s.count(old)); sys.exit(2)
open(p, 'w').write(s.replace(old, new))
try:
    for c in checks:
        r = subprocess.run(['python3', '/verif/checks/%s.py' % c.lower(), 'quick'], stdout=subprocess.PIPE, stderr=subprocess.STDOUT, text=True)
        keys = [l.strip()[:160] for l in r.stdout.split('\n') if l.strip().startswith('key=')]
        print(c, 'exit', r.returncode, keys[:3])
finally:
    subprocess.run(['git', '-C', '/repo', 'checkout', '--', f])
