#!/usr/bin/env python3
"""Mutation regression of the machinery: every stored seeded change (/verif/seeded/<ID>/<n>/patch.diff) is applied to a scratch clone of
/repo under /tmp (never to /repo), the owning check runs at the quick tier against that clone (VERIF_REPO; build output, evidence and replay
files go to the scratch directory as well) and must report a violation.  usage: seedregress.py [<ID>[/<n>] ...]   (default: all)
Prints one line per change and a summary; exit 1 when a change is not caught."""
import json, os, shutil, subprocess, sys
V = os.path.dirname(os.path.dirname(os.path.abspath(__file__)))
S = '/tmp/verif-seedregress-%d' % os.getpid()
want = sys.argv[1:]
items = []
for pid in sorted(os.listdir(os.path.join(V, 'seeded'))):
    for n in sorted(os.listdir(os.path.join(V, 'seeded', pid)), key=lambda x: int(x) if x.isdigit() else 0):
        if os.path.exists(os.path.join(V, 'seeded', pid, n, 'patch.diff')) and (not want or pid in want or '%s/%s' % (pid, n) in want):
            items.append((pid, n))
os.makedirs(S)
missed = []
try:
    subprocess.run(['git', 'clone', '-q', '/repo', S + '/repo'], check=True)
    # the clone holds the committed tree; uncommitted changes of /repo (normally none) are carried over
    d = subprocess.run(['git', '-C', '/repo', 'diff', 'HEAD'], capture_output=True, text=True).stdout
    if d.strip():
        subprocess.run(['git', '-C', S + '/repo', 'apply', '--whitespace=nowarn'], input=d, text=True, check=True)
        subprocess.run(['git', '-C', S + '/repo', 'commit', '-qam', 'working tree'], check=True)
    env = dict(os.environ, VERIF_REPO=S + '/repo', VERIF_BUILD_DIR=S + '/build', VERIF_EVIDENCE_DIR=S + '/evidence', VERIF_REPLAY_DIR=S + '/replay')
    os.makedirs(S + '/evidence')
    # the machinery itself is used from a snapshot, so that it can be worked on while the regression runs
    subprocess.run(['rsync', '-a', '--exclude', '.build', '--exclude', '.git', '--exclude', 'replay', V + '/', S + '/verif/'], check=True)
    VS = S + '/verif'
    for pid, n in items:
        patch = os.path.join(V, 'seeded', pid, n, 'patch.diff')
        try:
            meta = json.load(open(os.path.join(V, 'seeded', pid, n, 'meta.json')))
        except (OSError, ValueError):
            meta = {}
        if meta.get('missed'):
            print('%s/%s SKIPPED known gap: not caught by any check (see meta.json)' % (pid, n), flush=True)
            continue
        if meta.get('equivalent_since_fix'):
            print('%s/%s SKIPPED no violation any more since fix %s (see meta.json)' % (pid, n, meta['equivalent_since_fix']), flush=True)
            continue
        r = subprocess.run(['git', '-C', S + '/repo', 'apply', '--whitespace=nowarn', patch], capture_output=True, text=True)
        if r.returncode != 0:
            print('%s/%s APPLY-FAILED %s' % (pid, n, r.stderr.strip()[:200]), flush=True)
            missed.append('%s/%s' % (pid, n))
            continue
        # a change that the check of its own property cannot see but another check does (meta.caught_by) is run against that one
        by = meta.get('caught_by') or [pid]
        chk = pid if pid in by else by[0]
        p = subprocess.run(['python3', os.path.join(VS, 'checks', chk.lower() + '.py'), 'quick'], stdout=subprocess.PIPE, stderr=subprocess.STDOUT, text=True, env=env)
        keys = [l.strip()[4:].split(' n=')[0] for l in p.stdout.split('\n') if l.strip().startswith('key=')]
        print('%s/%s%s exit=%d %s' % (pid, n, '' if chk == pid else ' (by %s)' % chk, p.returncode, keys[:2]), flush=True)
        if p.returncode != 1:
            missed.append('%s/%s' % (pid, n))
        subprocess.run(['git', '-C', S + '/repo', 'checkout', '--', '.'])
finally:
    shutil.rmtree(S, ignore_errors=True)
print('SUMMARY %d changes, %d caught, missed: %s' % (len(items), len(items) - len(missed), missed))
sys.exit(1 if missed else 0)
