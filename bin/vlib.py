#!/usr/bin/env python3
"""Common machinery for the /verif checks: builds from /repo's working tree, sharded harness runs with
sanitizer-report classification, three-valued verdicts, known-findings matching and evidence writing.
See DESIGN.md section 1."""
import concurrent.futures
import fcntl
import hashlib
import json
import os
import re
import shutil
import signal
import subprocess
import sys
import time

REPO = os.environ.get('VERIF_REPO', '/repo')
VERIF = os.path.dirname(os.path.dirname(os.path.abspath(__file__)))
# the registered commands use the defaults; the overrides exist for the mutation self-test (bin/seedregress.py), which runs the checks
# against a scratch clone with a seeded change applied and must not touch the evidence of the real tree
BUILD = os.environ.get('VERIF_BUILD_DIR') or os.path.join(VERIF, '.build')
HARNESS = os.path.join(VERIF, 'harness')
EVIDENCE = os.environ.get('VERIF_EVIDENCE_DIR') or os.path.join(VERIF, 'evidence')
REPLAY = os.environ.get('VERIF_REPLAY_DIR') or os.path.join(VERIF, 'replay')
NCPU = min(16, os.cpu_count() or 4)
GUARD = 'EBUSD_VERIF'

CONFIG_H = """
#define HAVE_CONTRIB
#define HAVE_DIRECT_FLOAT_FORMAT 1
#define HAVE_MQTT
#define HAVE_KNX
#define HAVE_SSL
#define HAVE_PPOLL
#define HAVE_PSELECT
#define HAVE_LINUX_SERIAL
#define HAVE_PTHREAD_SETNAME_NP
#define HAVE_CFSETSPEED
#define HAVE_TIME_H
#define HAVE_TIMEGM
#define HAVE_SYSLOG_H
#define PACKAGE "ebusd"
#define PACKAGE_BUGREPORT "ebusd@ebusd.eu"
#define PACKAGE_LOGFILE "/tmp/ebusd-verif.log"
#define PACKAGE_NAME "ebusd"
#define PACKAGE_PIDFILE "/tmp/ebusd-verif.pid"
#define PACKAGE_STRING "ebusd 26.1"
#define PACKAGE_TARNAME "ebusd"
#define PACKAGE_URL "https://github.com/john30/ebusd"
#define PACKAGE_VERSION "26.1"
#define REVISION "verif"
#define SCAN_VERSION "2601"
#define VERSION "26.1"
#define PACKAGE_VERSION_MAJOR 26
#define PACKAGE_VERSION_MINOR 1
"""

SAN_ASAN = '-fsanitize=address,undefined -fno-sanitize-recover=all'
FLAVOURS = {
    # name: (compiler, flags for repo sources and harness, guard on)
    'asan': ('g++', '-O1 -g -fno-omit-frame-pointer ' + SAN_ASAN, True),
    'tsan': ('g++', '-O1 -g -fno-omit-frame-pointer -fsanitize=thread', True),
    'fuzz': ('clang++', '-O1 -g -fno-omit-frame-pointer -fsanitize=fuzzer-no-link,address,undefined '
             '-fno-sanitize=object-size -fno-sanitize-recover=all', True),
    'plain': ('g++', '-O2 -g', False),
}

LIB_SOURCES = [
    'lib/utils/arg.cpp', 'lib/utils/log.cpp', 'lib/utils/tcpsocket.cpp', 'lib/utils/thread.cpp',
    'lib/utils/clock.cpp', 'lib/utils/rotatefile.cpp', 'lib/utils/httpclient.cpp',
    'lib/ebus/result.cpp', 'lib/ebus/symbol.cpp', 'lib/ebus/filereader.cpp', 'lib/ebus/datatype.cpp',
    'lib/ebus/data.cpp', 'lib/ebus/device_trans.cpp', 'lib/ebus/transport.cpp', 'lib/ebus/protocol.cpp',
    'lib/ebus/protocol_direct.cpp', 'lib/ebus/message.cpp', 'lib/ebus/stringhelper.cpp',
    'lib/ebus/contrib/contrib.cpp', 'lib/ebus/contrib/tem.cpp',
]
# everything of the daemon except main.cpp (process entry) and the mosquitto binding (replaced by a
# recording fake at link time)
EBUSD_SOURCES = [
    'ebusd/bushandler.cpp', 'ebusd/datahandler.cpp', 'ebusd/request.cpp', 'ebusd/network.cpp',
    'ebusd/mainloop.cpp', 'ebusd/scan.cpp', 'ebusd/main_args.cpp', 'ebusd/mqtthandler.cpp',
    'ebusd/mqttclient.cpp', 'ebusd/knxhandler.cpp', 'lib/knx/knx.cpp',
]


def log(*a):
    print(*a, file=sys.stderr, flush=True)


def sha(*parts):
    h = hashlib.sha256()
    for p in parts:
        h.update(p if isinstance(p, bytes) else str(p).encode())
        h.update(b'\0')
    return h.hexdigest()[:16]


def tree_hash():
    h = hashlib.sha256()
    src = os.path.join(REPO, 'src')
    for root, dirs, files in os.walk(src):
        dirs.sort()
        for f in sorted(files):
            if f.endswith(('.cpp', '.h', '.hpp', '.c', '.inc')):
                p = os.path.join(root, f)
                h.update(os.path.relpath(p, src).encode())
                with open(p, 'rb') as fh:
                    h.update(hashlib.sha256(fh.read()).digest())
    h.update(CONFIG_H.encode())
    return h.hexdigest()[:16]


class BuildError(Exception):
    pass


def _run(cmd, **kw):
    return subprocess.run(cmd, shell=isinstance(cmd, str), stdout=subprocess.PIPE, stderr=subprocess.STDOUT,
                          text=True, **kw)


def _compile_many(jobs):
    """jobs: list of (cmd, out). compile in parallel; raise BuildError with output on failure."""
    def one(job):
        cmd, out = job
        r = _run(cmd)
        return (r.returncode, cmd, r.stdout)
    with concurrent.futures.ThreadPoolExecutor(NCPU) as ex:
        for rc, cmd, out in ex.map(one, jobs):
            if rc != 0:
                raise BuildError('compile failed: %s\n%s' % (cmd, out[-4000:]))


def _prune(flavour_dir, keep):
    try:
        ents = [os.path.join(flavour_dir, d) for d in os.listdir(flavour_dir)]
    except FileNotFoundError:
        return
    ents = [e for e in ents if os.path.isdir(e) and os.path.basename(e) != keep]
    ents.sort(key=lambda e: os.path.getmtime(e), reverse=True)
    for e in ents[1:]:   # keep the newest other tree (e.g. while a seeded patch is applied and reverted)
        shutil.rmtree(e, ignore_errors=True)


def build_libs(flavour, need_ebusd=False):
    """Compile /repo/src (current working tree) for a flavour; returns (dir, cxx, flags)."""
    cxx, flags, guard = FLAVOURS[flavour]
    th = tree_hash()
    fdir = os.path.join(BUILD, flavour)
    d = os.path.join(fdir, th)
    os.makedirs(d, exist_ok=True)
    lock = open(os.path.join(fdir, '.lock'), 'w')
    fcntl.flock(lock, fcntl.LOCK_EX)
    try:
        inc = os.path.join(d, 'inc')
        os.makedirs(inc, exist_ok=True)
        cfg = os.path.join(inc, 'config.h')
        if not os.path.exists(cfg):
            with open(cfg, 'w') as f:
                f.write(CONFIG_H)
        src = os.path.join(REPO, 'src')
        common = ('%s -std=c++11 %s -fpic -w -D_GNU_SOURCE -DHAVE_CONFIG_H %s -I%s -I%s -I%s/lib/ebus -I%s/lib/utils '
                  '-I%s/lib/knx' % (cxx, flags, '-D' + GUARD if guard else '', inc, src, src, src, src))
        for name, sources in (('libebus.a', LIB_SOURCES), ('libebusd.a', EBUSD_SOURCES)):
            if name == 'libebusd.a' and not need_ebusd:
                continue
            lib = os.path.join(d, name)
            if os.path.exists(lib):
                continue
            t0 = time.time()
            objs, jobs = [], []
            odir = os.path.join(d, 'obj')
            os.makedirs(odir, exist_ok=True)
            for s in sources:
                o = os.path.join(odir, s.replace('/', '_')[:-4] + '.o')
                objs.append(o)
                jobs.append(('%s -c %s -o %s' % (common, os.path.join(src, s), o), o))
            _compile_many(jobs)
            r = _run('ar rcs %s.tmp %s && mv %s.tmp %s' % (lib, ' '.join(objs), lib, lib))
            if r.returncode != 0:
                raise BuildError(r.stdout)
            for o in objs:
                os.unlink(o)
            log('[build] %s/%s built in %.1fs' % (flavour, name, time.time() - t0))
        os.utime(d)
        _prune(fdir, th)
    finally:
        fcntl.flock(lock, fcntl.LOCK_UN)
        lock.close()
    return d


WRAPS_BUS = ['time', 'clock_gettime', 'ppoll', 'read', 'write', 'close', 'pthread_cond_timedwait', 'usleep']


def build_harness(flavour, name, sources, wraps=(), need_ebusd=False, extra='', link_extra=''):
    """Build /verif/harness/<sources> against the libs of flavour. Returns path of the binary."""
    d = build_libs(flavour, need_ebusd)
    cxx, flags, guard = FLAVOURS[flavour]
    srcs = [os.path.join(HARNESS, s) for s in sources]
    hh = hashlib.sha256()
    for root, dirs, files in os.walk(HARNESS):
        dirs.sort()
        for f in sorted(files):
            if f.endswith(('.h', '.hpp')) or os.path.join(root, f) in srcs:
                with open(os.path.join(root, f), 'rb') as fh:
                    hh.update(f.encode() + hashlib.sha256(fh.read()).digest())
    hh.update((' '.join(wraps) + extra + link_extra + str(need_ebusd)).encode())
    bdir = os.path.join(d, 'bin')
    os.makedirs(bdir, exist_ok=True)
    out = os.path.join(bdir, '%s-%s' % (name, hh.hexdigest()[:12]))
    if os.path.exists(out):
        return out
    lock = open(os.path.join(bdir, '.lock-' + name), 'w')
    fcntl.flock(lock, fcntl.LOCK_EX)
    try:
        if os.path.exists(out):
            return out
        for old in os.listdir(bdir):
            if old.startswith(name + '-'):
                os.unlink(os.path.join(bdir, old))
        t0 = time.time()
        src = os.path.join(REPO, 'src')
        if flavour == 'fuzz':
            flags = flags.replace('fuzzer-no-link', 'fuzzer')
        common = ('%s -std=gnu++17 %s -w -D_GNU_SOURCE -DHAVE_CONFIG_H %s -I%s/inc -I%s -I%s/lib/ebus -I%s/lib/utils '
                  '-I%s/lib/knx -I%s/ebusd -I%s %s' % (cxx, flags, '-D' + GUARD if guard else '', d, src, src, src, src,
                                                       src, HARNESS, extra))
        objs, jobs = [], []
        for s in srcs:
            o = out + '.' + os.path.basename(s) + '.o'
            objs.append(o)
            jobs.append(('%s -c %s -o %s' % (common, s, o), o))
        _compile_many(jobs)
        wrapflags = ''
        if wraps:
            wrapflags = '-Wl,' + ','.join('--wrap=' + w for w in wraps)
        libs = ('%s/libebusd.a ' % d if need_ebusd else '') + '%s/libebus.a' % d
        if need_ebusd:
            libs += ' -lssl -lcrypto'
        r = _run('%s -o %s.tmp %s %s %s %s -lpthread -lrt && mv %s.tmp %s' % (
            common, out, ' '.join(objs), wrapflags, libs, link_extra, out, out))
        for o in objs:
            if os.path.exists(o):
                os.unlink(o)
        if r.returncode != 0:
            raise BuildError('link failed for %s:\n%s' % (name, r.stdout[-6000:]))
        log('[build] %s/%s built in %.1fs' % (flavour, name, time.time() - t0))
    finally:
        fcntl.flock(lock, fcntl.LOCK_UN)
        lock.close()
    return out


# ---------------------------------------------------------------------------------------------------------
# running harness shards

SAN_ENV = {
    'ASAN_OPTIONS': 'abort_on_error=0:halt_on_error=1:detect_leaks=1:exitcode=87:allocator_may_return_null=1:'
                    'detect_stack_use_after_return=0:malloc_context_size=12',
    'UBSAN_OPTIONS': 'print_stacktrace=1:halt_on_error=1:exitcode=87',
    'LSAN_OPTIONS': 'exitcode=87',
    'TSAN_OPTIONS': 'halt_on_error=0:exitcode=0:second_deadlock_stack=1',
}

_RE_FRAME = re.compile(r'#\d+ 0x[0-9a-f]+ in (.+?) (/\S+?):(\d+)')
_RE_UB = re.compile(r'^(\S+?):(\d+):(\d+): runtime error: (.*)$', re.M)


def classify_sanitizer(stderr):
    """Returns list of (key, summary) for sanitizer reports found in stderr text."""
    out = []
    for m in _RE_UB.finditer(stderr):
        f, line, col, msg = m.groups()
        f = os.path.relpath(f, REPO) if f.startswith(REPO) else f
        cls = re.sub(r"0x[0-9a-f]+", 'P', msg)
        cls = re.sub(r'-?\d+(\.\d+)?(e[+-]?\d+)?', 'N', cls)
        out.append(('ubsan:%s:%s' % (f, cls[:80]), '%s:%s: %s' % (f, line, msg)))
    for m in re.finditer(r'ERROR: (AddressSanitizer|LeakSanitizer): ([^\n]*)', stderr):
        tool, what = m.groups()
        kind = what.split(' on ')[0].split(' in ')[0].strip()
        kind = re.sub(r'0x[0-9a-f]+', 'P', kind)
        kind = re.sub(r'\d+', 'N', kind)
        tail = stderr[m.end():]
        fn = '?'
        for fm in _RE_FRAME.finditer(tail[:20000]):
            func, path, _ = fm.groups()
            if path.startswith(REPO + '/src'):
                fn = re.sub(r'\(.*', '', func)
                break
        out.append(('%s:%s:%s' % ('asan' if tool[0] == 'A' else 'lsan', kind[:60], fn), what[:200] + ' @ ' + fn))
    return out


class ShardResult:
    def __init__(self):
        self.violations = []   # (key, detail, replay-text)
        self.stats = []        # dicts
        self.inconclusive = []  # strings
        self.lines = []


def run_shards(cmds, timeout, env=None, line_cb=None, stdin_data=None, retries=1):
    """Run harness commands in parallel (each a list argv). Protocol of harness stdout:
       'V\\t<key>\\t<detail>'  violation; 'S\\t<json>' stats; 'L\\t...' passed to line_cb; other lines ignored.
       Non-zero exit with a sanitizer report -> violation keyed by the report; other abnormal exit -> crash key.
       A timeout is retried once, then inconclusive."""
    res = ShardResult()
    e = dict(os.environ)
    e.update(SAN_ENV)
    if env:
        e.update(env)

    def one(cmd):
        for attempt in range(retries + 1):
            try:
                p = subprocess.run(cmd, stdout=subprocess.PIPE, stderr=subprocess.PIPE, env=e, timeout=timeout,
                                   input=stdin_data)
                return cmd, p.returncode, p.stdout.decode('utf-8', 'replace'), p.stderr.decode('utf-8', 'replace')
            except subprocess.TimeoutExpired as te:
                last = te
        return cmd, None, (last.stdout or b'').decode('utf-8', 'replace'), (last.stderr or b'').decode('utf-8', 'replace')

    with concurrent.futures.ThreadPoolExecutor(max(1, min(NCPU, len(cmds)))) as ex:
        for cmd, rc, out, err in ex.map(one, cmds):
            cmds_s = ' '.join(cmd)
            for line in out.splitlines():
                if line.startswith('V\t'):
                    parts = line.split('\t', 2)
                    res.violations.append((parts[1], parts[2] if len(parts) > 2 else '', cmds_s))
                elif line.startswith('S\t'):
                    try:
                        res.stats.append(json.loads(line[2:]))
                    except ValueError:
                        res.inconclusive.append('bad stats line from ' + cmds_s)
                elif line.startswith('L\t') and line_cb:
                    line_cb(line[2:])
            if rc is None:
                res.inconclusive.append('watchdog timeout (%ss) twice: %s' % (timeout, cmds_s))
                continue
            if rc not in (0, 1):
                reps = classify_sanitizer(err)
                cur = ''
                for line in err.splitlines():
                    if line.startswith('CASE\t'):
                        cur = line[5:]
                if reps:
                    for key, summ in reps[:3]:
                        res.violations.append((key, summ + (' case=' + cur if cur else ''), cmds_s + '\n' + err[-6000:]))
                else:
                    sig = -rc if rc < 0 else rc
                    name = signal.Signals(sig).name if rc < 0 and sig in signal.Signals._value2member_map_ else str(rc)
                    res.violations.append(('crash:%s:%s' % (name, os.path.basename(cmd[0]).split('-')[0]),
                                           'abnormal exit %s case=%s' % (rc, cur), cmds_s + '\n' + err[-6000:]))
            elif rc == 0 and 'runtime error:' in err:
                for key, summ in classify_sanitizer(err)[:3]:
                    res.violations.append((key, summ, cmds_s + '\n' + err[-6000:]))
    return res


# ---------------------------------------------------------------------------------------------------------
# verdicts, known findings, evidence

def load_known():
    p = os.path.join(VERIF, 'known_findings.json')
    try:
        with open(p) as f:
            return json.load(f)
    except FileNotFoundError:
        return {'findings': [], 'fixed': []}


def match_known(pid, key, detail, known):
    """a witness (key, detail) is a known finding iff an entry of known_findings.json for this property matches its key
    (exact, or regex with "regex": true) and, if the entry has one, its detail_regex (searched in the detail text)."""
    for k in known.get('findings', []):
        if k.get('property') != pid:
            continue
        pat = k.get('key')
        if pat is None:
            continue
        if k.get('regex'):
            if not re.fullmatch(pat, key):
                continue
        elif pat != key:
            continue
        dr = k.get('detail_regex')
        if dr and not re.search(dr, detail or ''):
            continue
        return k
    return None


class Check:
    def __init__(self, pid, level='exploration'):
        self.pid = pid
        self.level = level
        self.tier = 'quick'
        args = sys.argv[1:]
        for a in args:
            if a in ('quick', 'thorough'):
                self.tier = a
        self.tier = os.environ.get('VERIF_TIER', self.tier) if os.environ.get('VERIF_TIER') in ('quick', 'thorough') else self.tier
        try:
            self.seed = int(os.environ.get('VERIF_SEED', '1'))
        except ValueError:
            self.seed = 1
        self.t0 = time.time()
        self.violations = []      # (key, detail, replay)
        self.inconclusive = []
        self.coverage = {'evaluations': 0, 'distinct_nontrivial': 0, 'rule': '', 'samples': []}
        self.assumptions = []
        self.known = load_known()

    @property
    def thorough(self):
        return self.tier == 'thorough'

    def add_result(self, res):
        self.violations.extend(res.violations)
        self.inconclusive.extend(res.inconclusive)

    def violation(self, key, detail, replay=''):
        self.violations.append((key, detail, replay))

    def finish(self, floor_nontrivial=2):
        os.makedirs(EVIDENCE, exist_ok=True)
        # every witness is matched against the known findings individually; the rest is grouped by key
        bykey = {}
        knownby = {}
        for key, detail, replay in self.violations:
            k = match_known(self.pid, key, detail, self.known)
            if k:
                knownby.setdefault(k.get('id', k.get('key')), (key, k, []))[2].append((detail, replay))
            else:
                bykey.setdefault(key, []).append((detail, replay))
        new = list(bykey.items())
        knownhits = list(knownby.values())
        for key, k, items in knownhits:
            print('KNOWN-FINDING: property=%s %s [key=%s, %d witness(es) this run, e.g. %s]' % (
                self.pid, k.get('what', ''), key, len(items), items[0][0][:160]))
        cov = self.coverage
        cov['known_findings_seen'] = sorted(str(k.get('id', key)) for key, k, _ in knownhits)
        ev = {
            'property_id': self.pid, 'tier': self.tier, 'seed': self.seed, 'level': self.level,
            'coverage': cov, 'assumptions': self.assumptions, 'wall_s': round(time.time() - self.t0, 2),
            'violations': len(new),
        }
        if self.inconclusive:
            cov['inconclusive'] = self.inconclusive[:10]
        rc = 0
        rdir = os.path.join(REPLAY, self.pid)
        shutil.rmtree(rdir, ignore_errors=True)
        if new:
            os.makedirs(rdir, exist_ok=True)
            cov['violation_keys'] = [k for k, _ in new][:50]
            for key, items in new[:20]:
                path = os.path.join(rdir, re.sub(r'[^A-Za-z0-9_.-]+', '_', key)[:120] + '.txt')
                with open(path, 'w') as f:
                    f.write('property=%s tier=%s seed=%s\nkey=%s\n' % (self.pid, self.tier, self.seed, key))
                    for detail, replay in items[:10]:
                        f.write('--- witness\n%s\n%s\n' % (detail, replay))
                print('VIOLATION property=%s replay=%s' % (self.pid, path))
                print('  key=%s n=%d first: %s' % (key, len(items), items[0][0][:300]))
            rc = 1
        elif self.inconclusive:
            for s in self.inconclusive[:10]:
                print('INCONCLUSIVE property=%s %s' % (self.pid, s))
            rc = 2
        elif cov.get('distinct_nontrivial', 0) < floor_nontrivial or cov.get('evaluations', 0) < 1:
            print('INCONCLUSIVE property=%s observed too little: evaluations=%s distinct_nontrivial=%s (floor %s)' % (
                self.pid, cov.get('evaluations'), cov.get('distinct_nontrivial'), floor_nontrivial))
            rc = 2
        with open(os.path.join(EVIDENCE, self.pid + '.json'), 'w') as f:
            json.dump(ev, f, indent=1, default=str)
        print('%s %s tier=%s seed=%d evaluations=%s distinct_nontrivial=%s known=%d violations=%d wall=%.1fs' % (
            self.pid, 'HELD' if rc == 0 else ('VIOLATED' if rc == 1 else 'INCONCLUSIVE'), self.tier, self.seed,
            cov.get('evaluations'), cov.get('distinct_nontrivial'), len(knownhits), len(new), time.time() - self.t0))
        sys.exit(rc)


def merge_stats(stats, sample_cap=8):
    """Sum numeric fields, union 'samples' lists, sum dict-of-counts fields."""
    tot = {}
    for s in stats:
        for k, v in s.items():
            if isinstance(v, bool):
                tot[k] = tot.get(k, True) and v
            elif isinstance(v, (int, float)):
                tot[k] = tot.get(k, 0) + v
            elif isinstance(v, list):
                tot.setdefault(k, [])
                if len(tot[k]) < sample_cap:
                    tot[k].extend(v[:max(1, sample_cap // max(1, len(stats)))])
            elif isinstance(v, dict):
                d = tot.setdefault(k, {})
                for kk, vv in v.items():
                    d[kk] = d.get(kk, 0) + vv if isinstance(vv, (int, float)) else vv
            else:
                tot.setdefault(k, v)
    return tot


def guarded_main(fn):
    try:
        fn()
    except BuildError as e:
        print('INCONCLUSIVE harness build failed:\n%s' % e)
        sys.exit(2)
    except SystemExit:
        raise
    except Exception:
        import traceback
        traceback.print_exc()
        print('INCONCLUSIVE harness error')
        sys.exit(2)
