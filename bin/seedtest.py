#!/usr/bin/env python3
"""Apply a seeded change to /repo's working tree (never committed), run checks, revert straight afterwards.
usage: seedtest.py <patch.diff> <tier> <check> [<check>...]     prints one line per check: id exit first-violation-keys"""
import subprocess, sys, os, json, time
patch, tier = sys.argv[1], sys.argv[2]
checks = sys.argv[3:]
assert subprocess.run(['git', '-C', '/repo', 'status', '--porcelain', '--untracked-files=no'], capture_output=True, text=True).stdout.strip() == '', '/repo not clean'
r = subprocess.run(['git', '-C', '/repo', 'apply', '--whitespace=nowarn', patch], capture_output=True, text=True)
if r.returncode != 0:
    print('APPLY FAILED', r.stderr[:500]); sys.exit(2)
res = {}
try:
    for c in checks:
        t0 = time.time()
        p = subprocess.run(['python3', '/verif/checks/%s.py' % c.lower(), tier], stdout=subprocess.PIPE, stderr=subprocess.STDOUT, text=True)
        keys = [l.strip()[:200] for l in p.stdout.split('\n') if l.strip().startswith('key=')]
        incon = [l.strip()[:200] for l in p.stdout.split('\n') if l.startswith('INCONCLUSIVE')]
        res[c] = {'exit': p.returncode, 'keys': keys[:4], 'inconclusive': incon[:2], 'wall': round(time.time() - t0, 1)}
        print(c, 'exit', p.returncode, keys[:2], incon[:1], '%.0fs' % (time.time() - t0), flush=True)
finally:
    subprocess.run(['git', '-C', '/repo', 'checkout', '--', '.'])
    # evidence/replay files written by these runs belong to the mutated tree: restore the committed ones
    subprocess.run(['git', '-C', '/verif', 'checkout', '--', 'evidence'], capture_output=True)
print('RESULT ' + json.dumps(res))
