#!/usr/bin/env python3
"""Import the seeded changes produced by the sub-agents (/tmp/mut/<ID>-out) into /verif/seeded/<ID>/<n>/ and run the
owning check (quick; thorough when quick misses) on each: seedall.py <ID> [<ID>...]"""
import json, os, shutil, subprocess, sys
V = '/verif'
BASE = os.environ.get('SEED_BASE', '/tmp/mut')
OFFSET = int(os.environ.get('SEED_OFFSET', '0'))
for pid in sys.argv[1:]:
    src = '%s/%s-out' % (BASE, pid)
    meta = json.load(open(os.path.join(src, 'meta.json')))
    for k, m in enumerate(meta, 1):
        d = os.path.join(V, 'seeded', pid, str(k + OFFSET))
        os.makedirs(d, exist_ok=True)
        shutil.copy(os.path.join(src, 'patch%d.diff' % k), os.path.join(d, 'patch.diff'))
        shutil.copy(os.path.join(src, 'demo%d.md' % k), os.path.join(d, 'demonstration.md'))
        res = {}
        for tier in ('quick', 'thorough'):
            p = subprocess.run([os.path.join(V, 'bin', 'seedtest.py'), os.path.join(d, 'patch.diff'), tier, pid], capture_output=True, text=True)
            line = [l for l in p.stdout.split('\n') if l.startswith('RESULT ')]
            r = json.loads(line[0][7:])[pid] if line else {'exit': None, 'keys': [], 'error': (p.stdout + p.stderr)[-400:]}
            res[tier] = r
            print(pid, k + OFFSET, tier, r.get('exit'), r.get('keys', [])[:2], r.get('error', ''), flush=True)
            if r.get('exit') == 1:
                break
        m = dict(m)
        m.update({'property': pid, 'source': 'fresh sub-agent given only the property text and a scratch worktree', 'check_results': res,
                  'caught_by': [pid] if any(r.get('exit') == 1 for r in res.values()) else []})
        json.dump(m, open(os.path.join(d, 'meta.json'), 'w'), indent=1)
