#!/bin/sh
# Offline setup: pre-build the sanitizer flavours of /repo's current tree so the first check does not pay for it.
here="$(cd "$(dirname "$0")/.." && pwd)"
cd "$here" || exit 1
python3 - <<'PY'
import sys, os
sys.path.insert(0, 'bin')
import vlib
try:
    vlib.build_libs('asan', need_ebusd=True)
except vlib.BuildError as e:
    print(e); sys.exit(1)
PY
